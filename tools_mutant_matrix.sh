#!/bin/bash
# usage: [MUT_REPO=<scratch worktree>] tools_mutant_matrix.sh [id-regex] [outfile]
# (default target is /repo itself; a scratch worktree of the same HEAD can be used while /repo is busy - the checks then run with SX_REPO pointing at it
#  and write their evidence to a scratch directory)
# run each seeded change in seeded/MATRIX.txt (id, checks expected to report it) : apply to /repo, run the quick check, revert.
cd /verif
repo=${MUT_REPO:-/repo}
pat=${1:-.}
out=${2:-/verif/seeded/RESULTS.txt}
: > $out
while read id checks; do
  for chk in $checks; do
    cd $repo; git diff --quiet || { echo "REPO DIRTY" >> $out; exit 1; }
    git apply /verif/seeded/$id/patch.diff || { echo "$id $chk APPLY-FAILED" >> $out; continue; }
    cd /verif
    if [ $repo = /repo ]; then
      res=$(timeout 1500 ./check $chk --tier quick 2>&1 | grep -E "^VIOLATION|^INCONCLUSIVE|^HARNESS|^KNOWN" | head -1 | cut -c1-160)
    else
      res=$(SX_REPO=$repo VERIF_EVIDENCE_DIR=/tmp/ev-matrix timeout 1500 ./check $chk --tier quick 2>&1 | grep -E "^VIOLATION|^INCONCLUSIVE|^HARNESS|^KNOWN" | head -1 | cut -c1-160)
    fi
    rc=$?
    git -C $repo checkout -- .
    if echo "$res" | grep -q "^VIOLATION"; then verdict=CAUGHT; else verdict=MISSED; fi
    echo "$id $chk $verdict :: $res" >> $out
  done
done < <(grep -E "^${pat}" /verif/seeded/MATRIX.txt)
[ $repo = /repo ] && git -C /verif checkout -- evidence 2>/dev/null
echo DONE >> $out
