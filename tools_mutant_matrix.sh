#!/bin/bash
# run each seeded mutant against the check(s) expected to catch it; writes /verif/seeded/RESULTS.txt
cd /verif
out=/verif/seeded/RESULTS.txt
: > $out
while read id checks; do
  for chk in $checks; do
    cd /repo; git diff --quiet || { echo "REPO DIRTY" >> $out; exit 1; }
    git apply /verif/seeded/$id/patch.diff || { echo "$id $chk APPLY-FAILED" >> $out; continue; }
    cd /verif
    res=$(timeout 1500 ./check $chk --tier quick 2>&1 | grep -E "^VIOLATION|^INCONCLUSIVE|^HARNESS|^KNOWN" | head -1 | cut -c1-160)
    rc=$?
    git -C /repo checkout -- .
    if echo "$res" | grep -q "^VIOLATION"; then verdict=CAUGHT; else verdict=MISSED; fi
    echo "$id $chk $verdict :: $res" >> $out
  done
done <<LIST
C01a C01
C01b C01
C02a C02
C02b C02
C03a C03 C02
C03b C03
C04a C04
C04b C04
C05a C05
C05b C05
C06a C07
C06b C06
C07a C07
C07b C07
C08a C08
C08b C08
C09a C01
C09b C09
C10a C10
C10b C10
C11a C11
C11b C11
C12a C12
C12b C12
C13a C13
C13b C13
C14a C14
C14b C14
C15a C15
C15b C15
C16a C16
C16b C16
C17a C17
C17b C17
C18a C18
C18b C18
C19a C19
C19b C19
LIST
git -C /verif checkout -- evidence 2>/dev/null
echo DONE >> $out
