#!/usr/bin/env python3
"""regenerate MANIFEST.json from the property modules present in props/ (python3-vt tools_manifest.py)"""
import importlib
import json
import os
import sys

HERE = os.path.dirname(os.path.abspath(__file__))
sys.path.insert(0, HERE)
props = [json.loads(l) for l in open(os.path.join(HERE, 'properties.jsonl'))]
NA = json.load(open(os.path.join(HERE, 'not_applicable.json'))) if os.path.exists(os.path.join(HERE, 'not_applicable.json')) else {}

checks = []
na = []
for p in props:
    pid = p['id']
    if os.path.exists(os.path.join(HERE, 'props', pid + '.py')) and pid not in NA:
        m = importlib.import_module('props.' + pid)
        meta = m.META
        b = meta.get('bounds')
        checks.append({
            'property_id': pid,
            'quick_cmd': './check %s --tier quick' % pid,
            'thorough_cmd': './check %s --tier thorough' % pid,
            'evidence_file': 'evidence/%s.json' % pid,
            'replay_cmd_template': './check %s --replay {path}' % pid,
            'engine': 'sx',
            'level_claimed': {
                'category': getattr(m, 'LEVEL', 'model_checking'),
                'text': meta.get('level_text') or (
                    'Bounded symbolic execution of the real functions re-imported from /repo on every run (%s): all cell values / parameters are z3 '
                    'variables, every feasible path is explored and every assertion is decided by z3 for all values within the stated shape bounds; '
                    'counterexamples are replayed on the real numba/numpy/dask build before being reported. Bounds: %s' % (
                        ', '.join(meta.get('functions', [])[:6]) + (' ...' if len(meta.get('functions', [])) > 6 else ''),
                        b if isinstance(b, str) else json.dumps(b))),
                'design_ref': 'DESIGN.md section 5, ' + pid,
            },
            'level_note': 'Trusted base: the sx shims (numpy/xarray/dask/pandas stand-ins, validated by concrete differential replay on every run), z3; '
                          'exact real arithmetic with IEEE special values instead of float rounding. Outside the claim: ' + '; '.join(meta.get('outside', [])),
            'technique': meta.get('technique', 'solver-based bounded symbolic execution of the real Python source (z3), counterexample replay on the real build'),
        })
    else:
        na.append({'property_id': pid, 'reason': NA.get(pid, 'check not built yet (work in progress; see DESIGN.md section 5 for the planned solver-based harness)')})

man = {
    'version': 1,
    'setup_cmd': 'python3-vt -c "import z3, numpy" && /venv/bin/python -c "import numba, xarray, dask" && ./check --selftest',
    'hooks': {'guard': 'XRSPATIAL_VERIF', 'enable': 'no hooks in /repo are needed: every check re-imports /repo/xrspatial/*.py from the working tree under symbolic shims and replays on the untouched real build',
              'baseline_off_cmd': 'cd /repo && /venv/bin/python -m pytest -ra -q -p no:cacheprovider --timeout=900 --continue-on-collection-errors',
              'source_commits': [], 'add_only': True},
    'engines': [{'name': 'sx', 'path': 'sx/', 'serves_properties': [c['property_id'] for c in checks],
                 'kind_free_text': 'symbolic execution of the real Python source under numpy/numba/xarray/dask shims; z3 (QF_LRA/QF_NRA, Ackermannised libm) decides every path and assertion; replay worker on the real build'}],
    'checks': checks,
    'not_applicable': na,
    'notes': 'exit codes of ./check: 0 held on everything explored, 1 VIOLATION (replayed on the real code), 2 inconclusive, 3 harness error. known_findings.json lists fixed / known defects.',
}
json.dump(man, open(os.path.join(HERE, 'MANIFEST.json'), 'w'), indent=1)
print('checks:', [c['property_id'] for c in checks], 'n/a:', len(na))
