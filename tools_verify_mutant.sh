#!/bin/bash
# usage: tools_verify_mutant.sh <srcdir> <id>   (reads <srcdir>/{patch.diff,demo.py,meta.json}; stores /verif/seeded/<id>/ when confirmed)
# confirms in a scratch worktree: patch applies, demo fails with it and passes without, the test suite result equals that of the unpatched HEAD (318 passed, 1 failed: test_viewshed needs a GPU-less rtx fallback; before fix da6acd2 it was 317/2).
set -u
src=$1; id=$2; mkdir -p /tmp/mv
wt=/tmp/mv/$id
log=/tmp/mv/$id.log
: > $log
git -C /repo worktree add -q --detach $wt HEAD >>$log 2>&1 || { echo "$id worktree failed"; exit 1; }
cd $wt
PYTHONPATH=$wt /venv/bin/python $src/demo.py >>$log 2>&1; d0=$?
git apply $src/patch.diff >>$log 2>&1 || { echo "$id APPLY FAILED"; git -C /repo worktree remove --force $wt; exit 1; }
PYTHONPATH=$wt /venv/bin/python $src/demo.py >>$log 2>&1; d1=$?
/venv/bin/python -m pytest -q -p no:cacheprovider -n 3 --timeout=900 xrspatial/tests 2>&1 | tail -4 >>$log
tests=$(grep -E "passed|failed" $log | tail -1)
cd /
git -C /repo worktree remove --force $wt
ok=no
if [ $d0 -eq 0 ] && [ $d1 -ne 0 ] && echo "$tests" | grep -q "318 passed" && echo "$tests" | grep -q "1 failed"; then ok=yes; fi
echo "$id demo_clean_rc=$d0 demo_mutant_rc=$d1 tests='$tests' OK=$ok"
if [ $ok = yes ]; then
  mkdir -p /verif/seeded/$id
  cp $src/patch.diff $src/demo.py /verif/seeded/$id/
  python3 - <<PY
import json
m=json.load(open('$src/meta.json'))
m['confirmed']={'demo_on_clean_tree_rc':$d0,'demo_with_patch_rc':$d1,'test_suite_with_patch':"""$tests""",'how':'scratch worktree of /repo HEAD; /venv/bin/python demo.py before and after git apply; pytest -n 3 xrspatial/tests'}
json.dump(m,open('/verif/seeded/$id/meta.json','w'),indent=1)
PY
fi
