"""C08 Slope, aspect, curvature, hillshade are local 3x3 formulas with NaN borders."""
import math

from sx import symnp, symmath, core as sc
from sx.harness import TOL32
from .common import raster, coords_affine, cells, And, Or, Not, Implies, ite, isnan, same, vals

ID = 'C08'
LEVEL = 'model_checking'
DEG = 180.0 / math.pi

META = {
    'modules': ['slope', 'aspect', 'curvature', 'hillshade', 'utils', 'analytics'],
    'functions': ['xrspatial.slope.slope', 'xrspatial.slope._cpu', 'xrspatial.aspect.aspect', 'xrspatial.aspect._run_numpy',
                  'xrspatial.curvature.curvature', 'xrspatial.curvature._cpu', 'xrspatial.hillshade.hillshade',
                  'xrspatial.hillshade._run_numpy', 'xrspatial.utils.get_dataarray_resolution', 'xrspatial.utils.calc_res',
                  'xrspatial.analytics.summarize_terrain'],
    'bounds': {'quick': 'rasters 4x4 and 5x5 (every border / interior configuration of a 3x3 stencil), all cell values symbolic (NaN allowed), '
                        'cell sizes: concrete res attrs {(1,1),(2,0.5),3,(0.25,4)} and symbolic affine coordinates; azimuth/altitude: default and symbolic',
               'thorough': 'as quick plus 5x6 / 6x5 rasters, int dtype inputs, descending x coordinates'},
    'stubs': ['numba.jit = identity', 'libm atan/atan2/sin/cos/sqrt Ackermannised (axioms listed under axioms)'],
    'outside': ['IEEE rounding of float32 arithmetic (values are extended reals)', 'CUDA/CuPy paths', 'rasters larger than the bound',
                'slope upper bound stated as 90*(1+2^-20): the code multiplies by 57.29578 > 180/pi'],
    'assumptions': ['exact real arithmetic with NaN propagation', 'atan2 quarter-turn identity (libm axiom) for the aspect rotation claim'],
    'budget_s': {'quick': 120, 'thorough': 900},
}

RES = [(1, 1), (2.0, 0.5), 3, (0.25, 4.0)]


def jobs(tier, seed):
    out = []
    shapes = [(4, 4), (5, 5)] if tier == 'quick' else [(4, 4), (5, 5), (5, 6), (6, 5)]
    for op in ('slope', 'aspect', 'curvature', 'hillshade'):
        for shp in shapes:
            for ri, res in enumerate(RES if op in ('slope', 'curvature') else RES[:1]):
                if tier == 'quick' and shp == (5, 5) and ri > 1:
                    continue
                out.append({'name': '%s-formula-%dx%d-res%d' % (op, shp[0], shp[1], ri), 'kind': 'formula', 'op': op, 'shape': list(shp), 'res': ri,
                            'dtype': 'float64'})
        out.append({'name': op + '-formula-symcoords', 'kind': 'formula', 'op': op, 'shape': [4, 5], 'res': 'coords', 'dtype': 'float32'})
        out.append({'name': op + '-locality', 'kind': 'locality', 'op': op, 'shape': [5, 5], 'res': 1, 'dtype': 'float64'})
        out.append({'name': op + '-offset', 'kind': 'offset', 'op': op, 'shape': [4, 4], 'res': 1, 'dtype': 'float64'})
        out.append({'name': op + '-range-flat', 'kind': 'range', 'op': op, 'shape': [3, 3] if op == 'hillshade' else [4, 4], 'res': 1, 'dtype': 'float64'})
        if op != 'hillshade':
            out.append({'name': op + '-rot90', 'kind': 'rot90', 'op': op, 'shape': [4, 4], 'res': 0, 'dtype': 'float64'})
        out.append({'name': op + '-formula-int', 'kind': 'formula', 'op': op, 'shape': [4, 4], 'res': 1, 'dtype': 'int32'})
        # dimension names other than y / x, cell size from (symbolic) coordinates
        out.append({'name': op + '-formula-symcoords-lat-lon-dims', 'kind': 'formula', 'op': op, 'shape': [4, 4], 'res': 'coords', 'dtype': 'float64', 'dims': ['lat', 'lon']})
    out.append({'name': 'hillshade-symbolic-angles', 'kind': 'formula', 'op': 'hillshade', 'shape': [3, 4], 'res': 0, 'dtype': 'float64', 'sym_angles': True})
    out.append({'name': 'summarize_terrain', 'kind': 'summary', 'op': 'summary', 'shape': [4, 4], 'res': 1, 'dtype': 'float64'})
    return out


# ----------------------------------------------------------------- reference formulas (from the docstrings / ESRI pages)
def ref_slope(z, y, x, csx, csy):
    dzdx = ((z[y - 1, x + 1] + 2 * z[y, x + 1] + z[y + 1, x + 1]) - (z[y - 1, x - 1] + 2 * z[y, x - 1] + z[y + 1, x - 1])) / (8 * csx)
    dzdy = ((z[y + 1, x - 1] + 2 * z[y + 1, x] + z[y + 1, x + 1]) - (z[y - 1, x - 1] + 2 * z[y - 1, x] + z[y - 1, x + 1])) / (8 * csy)
    return symnp.arctan(symnp.sqrt(dzdx * dzdx + dzdy * dzdy)) * DEG


def ref_aspect(z, y, x):
    dzdx = ((z[y - 1, x + 1] + 2 * z[y, x + 1] + z[y + 1, x + 1]) - (z[y - 1, x - 1] + 2 * z[y, x - 1] + z[y + 1, x - 1])) / 8
    dzdy = ((z[y + 1, x - 1] + 2 * z[y + 1, x] + z[y + 1, x + 1]) - (z[y - 1, x - 1] + 2 * z[y - 1, x] + z[y - 1, x + 1])) / 8
    a = symnp.arctan2(dzdy, -dzdx) * DEG
    compass = ite(a < 0, 90.0 - a, ite(a > 90.0, 450.0 - a, 90.0 - a))
    flat = And(dzdx == 0, dzdy == 0)
    anynan = Or(isnan(dzdx), isnan(dzdy))
    return ite(anynan, math.nan, ite(flat, -1.0, compass))


def ref_curvature(z, y, x, cs):
    d = (z[y + 1, x] + z[y - 1, x]) / 2 - z[y, x]
    e = (z[y, x + 1] + z[y, x - 1]) / 2 - z[y, x]
    return -2 * (d + e) * 100 / (cs * cs)


def ref_hillshade(z, y, x, az, alt):
    gx = (z[y + 1, x] - z[y - 1, x]) / 2.0      # np.gradient axis 0
    gy = (z[y, x + 1] - z[y, x - 1]) / 2.0      # np.gradient axis 1
    slope = math.pi / 2. - symnp.arctan(symnp.sqrt(gx * gx + gy * gy))
    aspect = symnp.arctan2(-gx, gy)
    azr = (360.0 - az) * math.pi / 180.
    altr = alt * math.pi / 180.
    shaded = symnp.sin(altr) * symnp.sin(slope) + symnp.cos(altr) * symnp.cos(slope) * symnp.cos((azr - math.pi / 2.) - aspect)
    return (shaded + 1) / 2


def _mk(ctx, job, name='z', data=None):
    h, w = job['shape']
    dt = job['dtype']
    if data is None:
        if dt.startswith('int'):
            data = ctx.array(name, (h, w), dt, lo=-1000, hi=1000)
        else:
            data = ctx.array(name, (h, w), dt, nan=True)
    res = job['res']
    attrs = {}
    ys = xs = None
    if res == 'coords':
        dx = ctx.real('dx', lo=None)
        dy = ctx.real('dy')
        x0 = ctx.real('x0')
        y0 = ctx.real('y0')
        ctx.assume(And(dx != 0, dy != 0))
        xs = coords_affine(w, x0, dx)
        ys = coords_affine(h, y0, dy)
        csx, csy = abs(dx), abs(dy)
    else:
        r = RES[res]
        attrs['res'] = r
        csx, csy = (r, r) if not isinstance(r, tuple) else r
    attrs['unit'] = 'm'
    return raster(data, dims=tuple(job.get('dims', ('y', 'x'))), ys=ys, xs=xs, attrs=attrs, name='elev'), data, csx, csy


def _call(ctx, op, agg, az=225, alt=25):
    if op == 'slope':
        return ctx.call('slope:slope', agg)
    if op == 'aspect':
        return ctx.call('aspect:aspect', agg)
    if op == 'curvature':
        return ctx.call('curvature:curvature', agg)
    return ctx.call('hillshade:hillshade', agg, az, alt)


def _ref(op, z, y, x, csx, csy, az=225, alt=25):
    if op == 'slope':
        return ref_slope(z, y, x, csx, csy)
    if op == 'aspect':
        return ref_aspect(z, y, x)
    if op == 'curvature':
        return ref_curvature(z, y, x, (csx + csy) / 2)
    return ref_hillshade(z, y, x, az, alt)


def _float_view(data):
    return data.astype('float64') if data.dtype.kind in 'iu' else data


def body(ctx, job):
    kind = job['kind']
    op = job['op']
    h, w = job['shape']
    if kind == 'summary':
        agg, data, csx, csy = _mk(ctx, job)
        ds = ctx.call('analytics:summarize_terrain', agg)
        z = _float_view(data)
        for name, o in (('elev-slope', 'slope'), ('elev-aspect', 'aspect'), ('elev-curvature', 'curvature')):
            out = vals(ds[name])
            ctx.observe(o, out)
            for (y, x) in cells((h, w)):
                if 0 < y < h - 1 and 0 < x < w - 1:
                    ctx.check('summary-' + o, ctx.close(out[y, x], _ref(o, z, y, x, csx, csy), TOL32))
        return
    sc.set_axioms(pythag=(kind == 'range'), atan2_turn=(kind == 'rot90'), congruence='syntactic' if (op == 'hillshade' and kind != 'range') else 'full')
    az, alt = 225, 25
    if job.get('sym_angles'):
        az = ctx.real('azimuth', lo=0, hi=360)
        alt = ctx.real('altitude', lo=0, hi=90)
    agg, data, csx, csy = _mk(ctx, job)
    z = _float_view(data)
    res = _call(ctx, op, agg, az, alt)
    out = vals(res)
    ctx.observe('out', out)
    interior = [(y, x) for (y, x) in cells((h, w)) if 0 < y < h - 1 and 0 < x < w - 1]
    border = [(y, x) for (y, x) in cells((h, w)) if (y, x) not in interior]

    if kind == 'formula':
        ctx.check('shape-and-identity', And(out.shape == (h, w), res.dims == agg.dims, res.attrs == agg.attrs))
        for (y, x) in border:
            ctx.check('border-nan', isnan(out[y, x]))
        for (y, x) in interior:
            ctx.check('formula', ctx.close(out[y, x], _ref(op, z, y, x, csx, csy, az, alt), TOL32),
                      info=lambda m, y=y, x=x: {'cell': [y, x], 'got': ctx.ev(m, out[y, x])})
    elif kind == 'range':
        for (y, x) in interior:
            o = out[y, x]
            if op == 'slope':
                ctx.check('range', Or(isnan(o), And(o >= 0, o <= 90.0 * (1 + 2 ** -20))))
            elif op == 'aspect':
                ctx.check('range', Or(isnan(o), o == -1.0, And(o >= 0, o <= 360.0)))
            elif op == 'hillshade':
                ctx.check('range', Or(isnan(o), And(o >= -1e-9, o <= 1 + 1e-9)))
            # flat 3x3 window (all nine equal, not NaN)
            win = [z[y + dy, x + dx] for dy in (-1, 0, 1) for dx in (-1, 0, 1)]
            flat = And(*[win[0] == v for v in win[1:]])
            want = {'slope': 0.0, 'aspect': -1.0, 'curvature': 0.0}.get(op)
            if want is not None:
                ctx.check('flat-window', Implies(flat, o == want))
    elif kind == 'offset':
        k = ctx.real('offset')
        agg2, _, _, _ = _mk(ctx, job, data=data + k)
        out2 = vals(_call(ctx, op, agg2, az, alt))
        for (y, x) in cells((h, w)):
            ctx.check('offset-invariance', ctx.close(out2[y, x], out[y, x], TOL32))
    elif kind == 'locality':
        for (py, px) in ((2, 2), (0, 0), (1, 3)):
            d2 = data.copy()
            d2[py, px] = ctx.real('repl_%d_%d' % (py, px), nan=True)
            agg2, _, _, _ = _mk(ctx, job, data=d2)
            out2 = vals(_call(ctx, op, agg2, az, alt))
            for (y, x) in cells((h, w)):
                if abs(y - py) > 1 or abs(x - px) > 1:
                    ctx.check('locality', same(out2[y, x], out[y, x]))
    elif kind == 'rot90':
        # square cells; rot90 turns the raster a quarter turn anticlockwise
        agg2, _, _, _ = _mk(ctx, job, data=symnp.rot90(data).copy())
        out2 = vals(_call(ctx, op, agg2, az, alt))
        back = symnp.rot90(out2, -1)      # turn the result back onto the original grid
        for (y, x) in interior:
            a, b = out[y, x], back[y, x]
            if op == 'aspect':
                # turning the raster anticlockwise by 90 turns every downslope direction anticlockwise: aspect decreases by 90 (mod 360)
                shifted = ite(a == -1.0, -1.0, ite(a - 90.0 < 0, a + 270.0, a - 90.0))
                # 0 and 360 both denote north
                ok = Or(ctx.close(b, shifted, TOL32), And(Or(ctx.close(b, 0.0, TOL32), ctx.close(b, 360.0, TOL32)),
                                                          Or(ctx.close(shifted, 0.0, TOL32), ctx.close(shifted, 360.0, TOL32))))
                ctx.check('quarter-turn', ok, info=lambda m, y=y, x=x, a=a, b=b: {'cell': [y, x], 'orig': ctx.ev(m, a), 'rot': ctx.ev(m, b)})
            else:
                ctx.check('quarter-turn', ctx.close(b, a, TOL32))
