"""C04 Cross-tabulation is a true contingency table under any zone/category selection."""
import math

from sx import symnp, core as sc, symda
from sx.harness import TOL64, isfinite
from .common import raster, coords_affine, cells, And, Or, Not, Implies, ite, isnan, same, vals, Skip, Sum

ID = 'C04'
LEVEL = 'model_checking'
META = {
    'modules': ['zonal', 'utils'],
    'functions': ['xrspatial.zonal.crosstab', 'xrspatial.zonal._crosstab_numpy', 'xrspatial.zonal._find_cats', 'xrspatial.zonal._single_zone_crosstab_2d',
                  'xrspatial.zonal._single_zone_crosstab_3d', 'xrspatial.zonal._sort_and_stride', 'xrspatial.zonal._strides', 'xrspatial.zonal._get_zone_values'],
    'bounds': {'quick': 'zones/values rasters of 2 cells (every selection mode: <= 2 requested zone ids and <= 2 requested category ids, any order, absent ids) '
                        'and 3 cells (unrestricted, one requested category, one requested zone); all zone ids, values, nodata and requested ids symbolic reals '
                        '(values may be NaN); agg count and percentage; 3-D: 2 layers x 1x3, agg in {count, sum, mean, max, min}; integer zones with integer categories (2-D)',
               'thorough': '3 cells for every selection mode, 4 cells (2x2, 1x4) for unrestricted / single selections'},
    'stubs': ['numba.jit = identity', 'pandas.DataFrame = sx.minipd (column dict)', 'np.unique / np.argsort / np.sort on symbolic data = forking insertion sort'],
    'outside': ['more than 4 cells', 'float rounding of percentages', 'dask backend (C03)', 'duplicate ids inside zone_ids / cat_ids'],
    'assumptions': ['zone ids finite (NaN zones are covered by C02)', 'requested ids pairwise distinct'],
    'budget_s': {'quick': 240, 'thorough': 1800},
}


def jobs(tier, seed):
    out = []
    allsel = ('none', 'cat1', 'cat2', 'zone1', 'zone2', 'both')
    if tier == 'quick':
        plan = [((1, 2), 'count', allsel), ((1, 2), 'percentage', ('none', 'cat1', 'zone2')),
                ((1, 3), 'count', ('none', 'cat1', 'zone1')), ((1, 3), 'percentage', ('none',))]
    else:
        plan = [((1, 2), 'count', allsel), ((1, 2), 'percentage', allsel), ((1, 3), 'count', allsel), ((1, 3), 'percentage', ('none', 'cat1', 'zone2')),
                ((2, 2), 'count', ('none', 'cat1', 'zone2')), ((1, 4), 'count', ('none',))]
    for shp, agg, sels in plan:
        for sel in sels:
            out.append({'name': 'xtab2d-%dx%d-%s-%s' % (shp[0], shp[1], agg, sel), 'kind': '2d', 'shape': list(shp), 'agg': agg, 'sel': sel})
    # +-inf cells in the values raster are not valid cells (neither counted nor part of the percentage base)
    # integer zones and integer categories (the usual land-cover case)
    out.append({'name': 'xtab2d-1x3-count-none-int', 'kind': '2d', 'shape': [1, 3], 'agg': 'count', 'sel': 'none', 'zdtype': 'int32', 'vdtype': 'int32'})
    out.append({'name': 'xtab2d-1x2-percentage-cat1-int', 'kind': '2d', 'shape': [1, 2], 'agg': 'percentage', 'sel': 'cat1', 'zdtype': 'uint8', 'vdtype': 'int64'})
    # the category dimension in the middle / at the end of the 3-D values (layer=1, layer=-1), non-square raster
    for lay in (1, -1, -2):
        out.append({'name': 'xtab3d-2x2-sum-none-layer%d' % lay, 'kind': '3d', 'shape': [2, 2], 'agg': 'sum', 'sel': 'none', 'layer': lay})
        out.append({'name': 'xtab3d-1x3-count-cat1-layer%d' % lay, 'kind': '3d', 'shape': [1, 3], 'agg': 'count', 'sel': 'cat1', 'layer': lay})
    # dask backend for 3-D values (only count is supported there): zones chunked along x, values chunked along the layer axis as a band stack
    out.append({'name': 'xtab3d-1x3-count-none-dask-layer-chunks', 'kind': '3d', 'shape': [1, 3], 'agg': 'count', 'sel': 'none', 'dask': {'z': [[1], [1, 2]], 'v': [[1, 1], [1], [1, 2]]}})
    out.append({'name': 'xtab3d-1x3-count-cat1-dask-one-chunk', 'kind': '3d', 'shape': [1, 3], 'agg': 'count', 'sel': 'cat1', 'dask': {'z': [[1], [3]], 'v': [[2], [1], [2, 1]]}})
    # layer labels that are not in ascending order: every column must keep its own layer's aggregate
    out.append({'name': 'xtab3d-1x3-sum-none-descending-labels', 'kind': '3d', 'shape': [1, 3], 'agg': 'sum', 'sel': 'none', 'labels': [20, 10]})
    out.append({'name': 'xtab3d-1x3-count-cat1-descending-labels', 'kind': '3d', 'shape': [1, 3], 'agg': 'count', 'sel': 'cat1', 'labels': [20, 10], 'layer': -1})
    # non-finite zone ids (NaN, +-inf) are no zones: their cells belong to no row and must not disturb the others
    out.append({'name': 'xtab2d-1x3-count-none-zinf', 'kind': '2d', 'shape': [1, 3], 'agg': 'count', 'sel': 'none', 'zinf': True})
    out.append({'name': 'xtab3d-1x3-sum-none-zinf', 'kind': '3d', 'shape': [1, 3], 'agg': 'sum', 'sel': 'none', 'zinf': True})
    out.append({'name': 'xtab3d-1x3-count-cat1-zinf', 'kind': '3d', 'shape': [1, 3], 'agg': 'count', 'sel': 'cat1', 'zinf': True})
    out.append({'name': 'xtab2d-1x2-count-none-inf', 'kind': '2d', 'shape': [1, 2], 'agg': 'count', 'sel': 'none', 'inf': True})
    out.append({'name': 'xtab2d-1x3-percentage-none-inf', 'kind': '2d', 'shape': [1, 3], 'agg': 'percentage', 'sel': 'none', 'inf': True})
    for agg in ('count', 'sum', 'mean', 'max', 'min'):
        for sel in ('none', 'cat1'):
            out.append({'name': 'xtab3d-1x3-%s-%s' % (agg, sel), 'kind': '3d', 'shape': [1, 3], 'agg': agg, 'sel': sel})
    return out


def _col(df, key):
    """column lookup tolerant of symbolic keys (keys are compared with ==)"""
    for k in df.columns:
        if k is key:
            return df[k].vals
    for k in df.columns:
        if not isinstance(k, str) and not isinstance(key, str) and bool(k == key):
            return df[k].vals
    raise KeyError(key)


def body(ctx, job):
    h, w = job['shape']
    n = h * w
    sel = job['sel']
    agg = job['agg']
    zdt, vdt = job.get('zdtype', 'float64'), job.get('vdtype', 'float64')
    zinf = bool(job.get('zinf'))
    zones_d = ctx.array('z', (h, w), zdt, nan=zinf, inf=zinf, **({'lo': 0 if zdt[0] == 'u' else -2, 'hi': 3} if zdt[0] in 'iu' else {}))
    zones = raster(zones_d, name='zones')
    zl = zones_d.flat_values()
    zfin = [isfinite(z) for z in zl]
    nodata = ctx.real('nodata')
    zone_ids = None
    cat_ids = None
    if sel in ('zone1', 'zone2', 'both'):
        zone_ids = [ctx.real('zid1')] + ([ctx.real('zid2')] if sel != 'zone1' else [])
        if len(zone_ids) == 2:
            ctx.assume(zone_ids[0] != zone_ids[1])
    if job['kind'] == '2d':
        vals_d = ctx.array('v', (h, w), vdt, nan=True, inf=bool(job.get('inf')), **({'lo': -2, 'hi': 3} if vdt[0] in 'iu' else {}))
        values = raster(vals_d, name='values')
        vl = vals_d.flat_values()
        if sel in ('cat1', 'cat2', 'both'):
            cat_ids = [ctx.real('cid1')] + ([ctx.real('cid2')] if sel != 'cat1' else [])
            if len(cat_ids) == 2:
                ctx.assume(cat_ids[0] != cat_ids[1])
        df = ctx.call('zonal:crosstab', zones, values, zone_ids, cat_ids, None, agg, nodata)
        valid = [And(isfinite(v), v != nodata) for v in vl]
        cols = [c for c in df.columns if not isinstance(c, str)]
        rows = df['zone'].vals
        ctx.observe('zone_column', list(rows))
        ctx.observe('table', [[_col(df, c)[i] for c in cols] for i in range(len(rows))])

        # row set = requested zones that exist (all existing zones when unrestricted), no duplicates
        def exists_zone(z):
            return Or(*[And(f, zk == z) for f, zk in zip(zfin, zl)])

        def exists_cat(c):
            return Or(*[And(vk == c, ok) for vk, ok in zip(vl, valid)])
        for i, zi in enumerate(rows):
            ctx.check('row-label-is-a-zone', exists_zone(zi))
            if zone_ids is not None:
                ctx.check('row-was-requested', Or(*[zi == q for q in zone_ids]))
            for j in range(i):
                ctx.check('rows-distinct', zi != rows[j])
        want_rows = zone_ids if zone_ids is not None else zl
        for q in want_rows:
            ctx.check('every-requested-existing-zone-has-a-row', Implies(exists_zone(q), Or(*[r == q for r in rows]) if rows else False))
        for j, cj in enumerate(cols):
            ctx.check('column-label-is-a-category', exists_cat(cj))
            if cat_ids is not None:
                ctx.check('column-was-requested', Or(*[cj == q for q in cat_ids]))
            for k in range(j):
                ctx.check('columns-distinct', cj != cols[k])
        want_cols = cat_ids if cat_ids is not None else vl
        for q, ok in zip(want_cols, [True] * len(want_cols) if cat_ids is not None else valid):
            ctx.check('every-requested-existing-category-has-a-column',
                      Implies(And(ok, exists_cat(q)), Or(*[c == q for c in cols]) if cols else False))
        # entries
        for i, zi in enumerate(rows):
            total = Sum([ite(And(zk == zi, ok), 1, 0) for zk, ok in zip(zl, valid)])
            for cj in cols:
                got = _col(df, cj)[i]
                cnt = Sum([ite(And(zk == zi, vk == cj, ok), 1, 0) for zk, vk, ok in zip(zl, vl, valid)])
                if agg == 'count':
                    ctx.check('entry-is-count', got == cnt,
                              info=lambda m, got=got, cnt=cnt, zi=zi, cj=cj: {'zone': ctx.ev(m, zi), 'cat': ctx.ev(m, cj), 'got': ctx.ev(m, got), 'want': ctx.ev(m, cnt)})
                else:
                    # percentage of the zone's valid cells (total > 0 whenever the row has any counted cell)
                    ctx.check('entry-is-percentage', Or(And(total == 0, isnan(got)), And(total != 0, ctx.close(got * total, cnt * 100.0, TOL64))),
                              info=lambda m, got=got, cnt=cnt, total=total: {'got': ctx.ev(m, got), 'count': ctx.ev(m, cnt), 'total': ctx.ev(m, total)})
            if agg == 'percentage' and cat_ids is None and cols:
                s = Sum([_col(df, cj)[i] for cj in cols])
                ctx.check('row-sums-to-100', Implies(total != 0, ctx.close(s, 100.0, TOL64)))
    else:
        L = 2
        vals_d = ctx.array('v', (L, h, w), 'float64', nan=True)
        lab = job.get('labels', [10, 20])
        labels = symnp.asarray(lab)
        values = ctx_raster3(vals_d, labels, job.get('layer'))
        if sel == 'cat1':
            cat_ids = [20]
        first, second = lab
        if agg in ('max', 'min'):
            # numpy raises on an empty selection: keep every (zone, layer) non-empty
            for li in range(L):
                for k in range(n):
                    ctx.assume(And(Not(isnan(vals_d[li].flat_values()[k])), vals_d[li].flat_values()[k] != nodata))
        if job.get('dask'):
            from sx import symda
            zones = raster(zones_d, name='zones', chunks=job['dask']['z'])
            values.data = symda.Array(values.data, tuple(tuple(c) for c in job['dask']['v']))
        df = ctx.call('zonal:crosstab', zones, values, zone_ids, cat_ids, job.get('layer'), agg, nodata)
        if hasattr(df, 'compute'):
            df = df.compute()
        rows = df['zone'].vals
        cols = [c for c in df.columns if not isinstance(c, str)]
        ctx.check('3d-columns', [sc.as_const(c) if sc.is_sym(c) else c for c in cols] == ([20] if sel == 'cat1' else list(lab)))
        ctx.observe('zone_column', list(rows))
        for i, zi in enumerate(rows):
            ctx.check('row-label-is-a-zone', Or(*[And(f, zk == zi) for f, zk in zip(zfin, zl)]))
            for j in range(i):
                ctx.check('rows-distinct', zi != rows[j])
        for f, q in zip(zfin, zl):
            ctx.check('every-zone-has-a-row', Implies(f, Or(*[r == q for r in rows]) if rows else False))
        for i, zi in enumerate(rows):
            for cj in cols:
                li = 0 if (sc.as_const(cj) if sc.is_sym(cj) else cj) == first else 1
                lv = vals_d[li].flat_values()
                inz = [And(zk == zi, Not(isnan(v)), v != nodata) for zk, v in zip(zl, lv)]
                cnt = Sum([ite(c, 1, 0) for c in inz])
                sm = Sum([ite(c, v, 0.0) for c, v in zip(inz, lv)])
                got = _col(df, cj)[i]
                if agg == 'count':
                    ctx.check('3d-entry-count', got == cnt)
                elif agg == 'sum':
                    ctx.check('3d-entry-sum', ctx.close(got, sm, TOL64))
                elif agg == 'mean':
                    ctx.check('3d-entry-mean', Or(And(cnt == 0, isnan(got)), And(cnt != 0, ctx.close(got * cnt, sm, TOL64))))
                else:
                    ge = And(*[Implies(c, (got >= v) if agg == 'max' else (got <= v)) for c, v in zip(inz, lv)])
                    att = Or(*[And(c, got == v) for c, v in zip(inz, lv)])
                    ctx.check('3d-entry-' + agg, And(ge, att))


def ctx_raster3(data, labels, layer=None):
    """data is (layer, y, x); `layer` = position of the category dimension in the DataArray handed to crosstab"""
    from sx import symxr
    L, h, w = data.shape
    coords = {'layer': labels, 'y': coords_affine(h, float(h - 1), -1.0), 'x': coords_affine(w, 0.0, 1.0)}
    pos = {None: 0, 0: 0, -3: 0, 1: 1, -2: 1, 2: 2, -1: 2}[layer]
    if pos == 0:
        return symxr.DataArray(data, dims=('layer', 'y', 'x'), coords=coords, name='values3')
    if pos == 1:
        return symxr.DataArray(data.transpose(1, 0, 2), dims=('y', 'layer', 'x'), coords=coords, name='values3')
    return symxr.DataArray(data.transpose(1, 2, 0), dims=('y', 'x', 'layer'), coords=coords, name='values3')
