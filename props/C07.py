"""C07 Chunked proximity equals whole-raster proximity."""
import math

from sx import symnp, symda, core as sc
from .common import raster, coords_affine, cells, And, Or, Not, Implies, ite, isnan, same, vals, Skip, compositions, pick
from sx.harness import TOL32

ID = 'C07'
LEVEL = 'model_checking'
META = {
    'modules': ['proximity', 'utils'],
    'functions': ['xrspatial.proximity.proximity', 'xrspatial.proximity.allocation', 'xrspatial.proximity.direction', 'xrspatial.proximity._process',
                  'xrspatial.proximity._process (closure _process_dask)', 'xrspatial.utils.get_dataarray_resolution'],
    'bounds': {'quick': '3x4 raster with non-square cells (dx=1, dy=2): every chunk grid (4 x 8 = 32) x every position of one symbolic cell (target iff non-zero finite, decided by the '
                        'solver; all other cells 0) x max_distance in {1, 2}; unbounded max_distance (single-block fallback) for every grid; 2x3 raster with all cells symbolic for every grid '
                        '(8) and max_distance 1 (float64; int32 for two grids); joint evaluation of proximity / allocation / direction and of two max_distance values in one dask.compute (2 grids); square cells without a res attribute; dimensions named lat / lon; proximity, allocation and direction compared cell by cell with the NumPy-backed call',
               'thorough': 'two symbolic cells (all 66 pairs) on 3x4 for every grid, MANHATTAN, descending coordinates, max_distance 0.5 and 3'},
    'stubs': ['dask.array = sx.symda contract shim (map_overlap with per-axis depth, NaN boundary, minimum-chunk-size merging ported from dask; validated against real dask by replay)'],
    'outside': ['dask schedulers / worker counts', 'halo larger than the raster extent (dask limitation, excluded by the property)', 'rasters larger than the bound'],
    'assumptions': [],
    'replay_samples': {'quick': 4, 'thorough': 12},   # every replayed call re-JITs the proximity closure in the real build (~5 s)
    'budget_s': {'quick': 300, 'thorough': 1800},
}


def jobs(tier, seed):
    out = []
    h, w = 3, 4
    grids = [(a, b) for a in compositions(h) for b in compositions(w)]
    for gi, (cy, cx) in enumerate(grids):
        for maxd in (1.0, 2.0):
            for p in cells((h, w)):
                out.append({'name': 'g%d-maxd%s-cell%d%d' % (gi, maxd, p[0], p[1]), 'shape': [h, w], 'chunks': [list(cy), list(cx)], 'maxd': maxd, 'sym': [list(p)],
                            'metric': 'EUCLIDEAN', 'dy': 2.0})
        # square cells, descending y, no `res` attribute: the cell size then comes from the coordinate extents (a wide raster: x extent != y extent)
        for p in cells((h, w)):
            if tier != 'quick' or (p[0] + p[1] + gi) % 2 == 0:
                out.append({'name': 'g%d-square-maxd2.0-cell%d%d' % (gi, p[0], p[1]), 'shape': [h, w], 'chunks': [list(cy), list(cx)], 'maxd': 2.0, 'sym': [list(p)],
                            'metric': 'EUCLIDEAN', 'dy': -1.0})
        out.append({'name': 'g%d-inf' % gi, 'shape': [h, w], 'chunks': [list(cy), list(cx)], 'maxd': None, 'sym': [[0, 0], [2, 3]], 'metric': 'EUCLIDEAN', 'dy': 2.0})
    # explicit target_values with a symbolic target (0 included) on coordinates that start at 0: padding must never look like a target
    for gi, (cy, cx) in enumerate(grids):
        if tier == 'quick' and gi % 3:
            continue
        out.append({'name': 'g%d-target-values' % gi, 'shape': [h, w], 'chunks': [list(cy), list(cx)], 'maxd': 2.0, 'sym': [[1, 1]], 'metric': 'EUCLIDEAN', 'dy': 2.0,
                    'tv': True, 'origin0': True})
    for gi, (cy, cx) in enumerate([(a, b) for a in compositions(2) for b in compositions(3)]):
        out.append({'name': 'all-symbolic-2x3-g%d' % gi, 'shape': [2, 3], 'chunks': [list(cy), list(cx)], 'maxd': 1.0, 'sym': 'all', 'metric': 'EUCLIDEAN', 'dy': -1.0})
    for gi, (cy, cx) in enumerate([((1, 1), (1, 2)), ((1, 1), (3,))]):
        out.append({'name': 'all-symbolic-2x3-lat-lon-dims-g%d' % gi, 'shape': [2, 3], 'chunks': [list(cy), list(cx)], 'maxd': 1.0, 'sym': 'all', 'metric': 'EUCLIDEAN', 'dy': -2.0,
                    'dims': ['lat', 'lon']})
    for gi, (cy, cx) in enumerate([((1, 1), (1, 2)), ((2,), (2, 1))]):
        out.append({'name': 'all-symbolic-2x3-int32-g%d' % gi, 'shape': [2, 3], 'chunks': [list(cy), list(cx)], 'maxd': 1.0, 'sym': 'all', 'metric': 'EUCLIDEAN', 'dy': -1.0, 'dtype': 'int32'})
    for gi, (cy, cx) in enumerate([((1, 2), (2, 2)), ((3,), (1, 3))]):
        out.append({'name': 'joint-3x4-g%d' % gi, 'shape': [3, 4], 'chunks': [list(cy), list(cx)], 'maxd': 2.0, 'sym': [[0, 1], [2, 3]], 'metric': 'EUCLIDEAN', 'dy': 2.0, 'joint': True})
    if tier != 'quick':
        allc = cells((h, w))
        pairs = [(p, q) for i, p in enumerate(allc) for q in allc[:i]]
        for gi, (cy, cx) in enumerate(grids):
            for (p, q) in pick(pairs, 12, seed + gi):
                for maxd, metric, dy in ((2.0, 'EUCLIDEAN', 2.0), (3.0, 'MANHATTAN', -2.0), (0.5, 'EUCLIDEAN', 2.0)):
                    out.append({'name': 'g%d-pair-%s-%s-%d%d-%d%d' % (gi, maxd, metric[0], p[0], p[1], q[0], q[1]), 'shape': [h, w], 'chunks': [list(cy), list(cx)],
                                'maxd': maxd, 'sym': [list(p), list(q)], 'metric': metric, 'dy': dy})
    return out


def body(ctx, job):
    sc.set_axioms()
    h, w = job['shape']
    dy = job['dy']
    ys = coords_affine(h, 0.0 if job.get('origin0') else 10.0, dy)
    xs = coords_affine(w, 0.0 if job.get('origin0') else 100.0, 1.0)
    if job['sym'] == 'all':
        dt = job.get('dtype', 'float64')
        data = ctx.array('d', (h, w), dt, nan=True, **({'lo': -1, 'hi': 2} if dt[0] in 'iu' else {}))
    else:
        data = symnp.full((h, w), 5.0 if job.get('tv') else 0.0, 'float64')
        for (y, x) in job['sym']:
            data[y, x] = ctx.real('d_%d_%d' % (y, x), nan=True)
    kw = dict(distance_metric=job['metric'])
    if job['maxd'] is not None:
        kw['max_distance'] = job['maxd']
    if job.get('tv'):
        kw['target_values'] = [ctx.real('target_value')]
    chunks = job['chunks']
    if job.get('joint'):
        # the three outputs for one raster, and the same output for two max_distance values, evaluated together in one graph
        dn = ('y', 'x')
        a_np = raster(data.copy(), dims=dn, ys=ys, xs=xs, name='r')
        a_da = raster(data.copy(), dims=dn, ys=ys, xs=xs, name='r', chunks=chunks)
        kw2 = dict(kw, max_distance=1.0)
        plan = [('proximity', kw), ('allocation', kw), ('direction', kw), ('proximity', kw2)]
        refs = [vals(ctx.call('proximity:' + fn, a_np, 'x', 'y', **k)) for fn, k in plan]
        got = ctx.call_joint([('proximity:' + fn, (a_da, 'x', 'y'), k) for fn, k in plan])
        for (fn, k), ref, g in zip(plan, refs, got):
            out = vals(g)
            for c in cells((h, w)):
                ctx.check(fn + '-computed-together-equals-numpy', ctx.close(out[c], ref[c], TOL32),
                          info=lambda m, c=c, fn=fn, out=out, ref=ref: {'fn': fn, 'cell': list(c), 'dask_joint': ctx.ev(m, out[c]), 'numpy': ctx.ev(m, ref[c])})
        return
    for fn in ('proximity', 'allocation', 'direction'):
        dn = tuple(job.get('dims', ('y', 'x')))
        a_np = raster(data.copy(), dims=dn, ys=ys, xs=xs, name='r')
        a_da = raster(data.copy(), dims=dn, ys=ys, xs=xs, name='r', chunks=chunks)
        ref = vals(ctx.call('proximity:' + fn, a_np, dn[1], dn[0], **kw))
        res = ctx.call('proximity:' + fn, a_da, dn[1], dn[0], **kw)
        lazy = isinstance(res.data, symda.Array)
        ctx.check('result-stays-dask-backed', lazy)
        out = vals(res)
        ctx.observe(fn, out)
        for c in cells((h, w)):
            ctx.check(fn + '-dask-equals-numpy', ctx.close(out[c], ref[c], TOL32),
                      info=lambda m, c=c, fn=fn, out=out, ref=ref: {'fn': fn, 'cell': list(c), 'dask': ctx.ev(m, out[c]), 'numpy': ctx.ev(m, ref[c]),
                                                                    'data': [ctx.ev(m, v) for v in data.flat_values()]})
