"""C01 Dask-backed rasters give the NumPy result for every chunking."""
import math

from sx import symnp, symda, core as sc, userfuncs
from sx.harness import TOL32
from .common import raster, coords_affine, cells, And, Or, Not, Implies, ite, isnan, same, vals, Skip, compositions, pick

ID = 'C01'
LEVEL = 'model_checking'
META = {
    'modules': ['slope', 'aspect', 'curvature', 'hillshade', 'convolution', 'focal', 'classify', 'multispectral', 'perlin', 'terrain', 'utils'],
    'functions': ['slope, aspect, curvature, hillshade (public wrappers + _run_dask_numpy)', 'focal.mean / apply / focal_stats / hotspots', 'convolution.convolution_2d',
                  'classify.binary / reclassify / equal_interval', 'multispectral: arvi, evi, gci, nbr, nbr2, ndvi, ndmi, savi, sipi, ebbi, true_color',
                  'perlin.perlin, terrain._terrain_dask_numpy (concrete differential)', 'utils.ArrayTypeFunctionMapping, utils.validate_arrays'],
    'bounds': {'quick': '4x4 rasters (symbolic cells, NaN allowed for the 3x3-window terrain operations) over a seeded third of the 64 chunk grids (always including single-chunk, all 1-cell chunks '
                        'and the most uneven ones) for slope, aspect, curvature, hillshade, focal mean (passes 1, 2), focal apply / focal_stats with kernels 3x3, 1x3, 3x1, 3x5, 5x3, '
                        'convolution_2d with symbolic weights for the same kernel shapes, hotspots; 2x2 rasters over all 4 chunk grids for binary, reclassify, equal_interval, the ten spectral '
                        'indices and true_color (differently chunked band rasters included); perlin / terrain: concrete seeds, 2 grids (enumerated, not solved); integer rasters (int32, uint8) 3x4 over 3 seeded grids for slope, aspect, curvature, hillshade, focal mean and 2 grids for apply / convolution_2d / focal_stats; joint evaluation: for 13 functions two lazy results (same raster with different parameters, or two rasters) computed in one dask.compute; curvature / slope 3x3 under the float32 store model; focal mean with excludes=[0]; hillshade with symbolic azimuth / altitude',
               'thorough': 'every one of the 64 grids of 4x4 for every window operation and kernel shape, 4x5 for 3x5 kernels'},
    'stubs': ['dask.array = sx.symda contract shim: map_overlap(depth per axis, constant boundary, dask\'s minimum-chunk-size re-chunking ported verbatim), map_blocks with chunk unification, '
              'global reductions over the whole array; validated against real dask by concrete replay of sampled path models on every run'],
    'outside': ['dask schedulers / worker counts (only "block evaluation order does not matter" is modelled)', 'float rounding of re-ordered global reductions', 'CuPy', 'rasters larger than the bound'],
    'assumptions': ['exact real arithmetic'],
    'technique': 'solver-based bounded symbolic execution of the real Python source (z3), counterexample replay on the real build; perlin / generate_terrain by concrete differential runs (enumeration)',
    'budget_s': {'quick': 240, 'thorough': 2400},
}

KERNELS = {'3x3': (3, 3), '1x3': (1, 3), '3x1': (3, 1), '3x5': (3, 5), '5x3': (5, 3)}
INDICES = {'arvi': 3, 'evi': 3, 'gci': 2, 'nbr': 2, 'nbr2': 2, 'ndvi': 2, 'ndmi': 2, 'savi': 2, 'sipi': 3, 'ebbi': 3}


def _grids(h, w, tier, seed, k):
    allg = [(a, b) for a in compositions(h) for b in compositions(w)]
    if tier != 'quick' or len(allg) <= k:
        return allg
    always = [0, len(allg) - 1]
    for i, (a, b) in enumerate(allg):
        if a == (1,) * h and b == (1,) * w:
            always.append(i)
        if a in ((1, h - 1), (h - 1, 1)) and b in ((1, w - 1), (w - 1, 1)):
            always.append(i)
    return pick(allg, k, seed, always=always)


def jobs(tier, seed):
    out = []
    n4 = 20 if tier == 'quick' else 64
    for op in ('slope', 'aspect', 'curvature', 'hillshade', 'hillshade-angles', 'mean1', 'mean2'):
        for (cy, cx) in _grids(4, 4, tier, seed + len(op), n4 if op in ('slope', 'mean1') else n4 // 2):
            out.append({'name': '%s-4x4-%s-%s' % (op, 'x'.join(map(str, cy)), 'x'.join(map(str, cx))), 'op': op, 'shape': [4, 4], 'chunks': [list(cy), list(cx)]})
    # integer rasters: the NaN halo / NaN border must not be cast to the integer dtype before the kernel sees it
    for op in ('slope', 'aspect', 'curvature', 'hillshade', 'mean1'):
        for dt in (('int32', 'uint8') if tier == 'quick' else ('int32', 'uint8', 'int64', 'float32')):
            for (cy, cx) in _grids(3, 4, tier, seed + 11, 3 if tier == 'quick' else 8):
                out.append({'name': '%s-3x4-%s-%s-%s' % (op, dt, 'x'.join(map(str, cy)), 'x'.join(map(str, cx))), 'op': op, 'shape': [3, 4], 'chunks': [list(cy), list(cx)], 'dtype': dt})
    # float64 rasters under the float32 store model: both backends must cast (or not cast) the surface alike
    for op in ('curvature', 'slope'):
        for (cy, cx) in _grids(3, 3, tier, seed + 19, 2 if tier == 'quick' else 6):
            out.append({'name': '%s-3x3-f32model-%s-%s' % (op, 'x'.join(map(str, cy)), 'x'.join(map(str, cx))), 'op': op, 'shape': [3, 3], 'chunks': [list(cy), list(cx)], 'f32': True})
    # two lazy results evaluated together in one graph (dask.compute(r1, r2)): each must still equal its own NumPy result
    for op in ('hillshade', 'aspect', 'slope', 'curvature', 'reclassify', 'equal_interval', 'binary', 'mean1', 'apply', 'focal_stats', 'convolution', 'ndvi', 'perlin'):
        out.append({'name': 'joint-%s-3x3' % op, 'op': 'joint', 'fn': op, 'shape': [3, 3], 'chunks': [[2, 1], [1, 2]]})
    # focal mean with an explicit excludes list that does not contain NaN (the NaN halo then takes part in the window like on the raster edge)
    for op in ('mean1e', 'mean2e'):
        for (cy, cx) in _grids(3, 4, tier, seed + 17, 4 if tier == 'quick' else 16):
            out.append({'name': '%s-3x4-%s-%s' % (op, 'x'.join(map(str, cy)), 'x'.join(map(str, cx))), 'op': op, 'shape': [3, 4], 'chunks': [list(cy), list(cx)]})
    for kn, ks in KERNELS.items():
        shp = [4, 4] if tier == 'quick' or kn not in ('3x5', '5x3') else ([4, 5] if kn == '3x5' else [5, 4])
        for op in ('apply', 'convolution', 'focal_stats'):
            ng = (n4 if kn != '3x3' else n4 // 2) if op != 'focal_stats' else 4
            for (cy, cx) in _grids(shp[0], shp[1], tier, seed + 7 * len(kn) + len(op), ng):
                out.append({'name': '%s-%s-%s-%s' % (op, kn, 'x'.join(map(str, cy)), 'x'.join(map(str, cx))), 'op': op, 'shape': shp, 'chunks': [list(cy), list(cx)], 'kernel': kn})
    for op in ('apply', 'convolution', 'focal_stats'):
        for dt in ('int32', 'uint8'):
            for (cy, cx) in _grids(3, 4, tier, seed + 13, 2 if tier == 'quick' else 8):
                out.append({'name': '%s-3x3-%s-%s-%s' % (op, dt, 'x'.join(map(str, cy)), 'x'.join(map(str, cx))), 'op': op, 'shape': [3, 4], 'chunks': [list(cy), list(cx)], 'kernel': '3x3',
                            'dtype': dt})
    for kn in ('3x3', '1x3'):
        for (cy, cx) in _grids(3, 4, tier, seed + 3, 6):
            out.append({'name': 'hotspots-%s-%s-%s' % (kn, 'x'.join(map(str, cy)), 'x'.join(map(str, cx))), 'op': 'hotspots', 'shape': [3, 4], 'chunks': [list(cy), list(cx)], 'kernel': kn})
    small = [(a, b) for a in compositions(2) for b in compositions(2)]
    for op in ['binary', 'reclassify', 'equal_interval', 'true_color'] + list(INDICES):
        for gi, (cy, cx) in enumerate(small):
            out.append({'name': '%s-2x2-g%d' % (op, gi), 'op': op, 'shape': [2, 2], 'chunks': [list(cy), list(cx)], 'chunks2': [list(small[(gi + 1) % 4][0]), list(small[(gi + 1) % 4][1])]})
    for gi, ch in enumerate(([[3], [4]], [[1, 2], [2, 2]])):
        out.append({'name': 'perlin-3x4-g%d' % gi, 'op': 'perlin', 'shape': [3, 4], 'chunks': ch})
        if gi == 1 or tier != 'quick':
            out.append({'name': 'terrain-3x4-g%d' % gi, 'op': 'terrain', 'shape': [3, 4], 'chunks': ch})
    return out


def body_joint(ctx, job, pair, h, w):
    """same function, two different inputs / parameters, dask results computed in one graph"""
    fn = job['fn']
    # two different fixed rasters with one symbolic cell each (the question is which graph a value comes from, not the per-cell formula)
    d1 = symnp.asarray([[float((y * 5 + x * 3) % 7) for x in range(w)] for y in range(h)], 'float64').copy()
    d2 = symnp.asarray([[float((y * 2 + x * 7 + 3) % 5) + 0.5 for x in range(w)] for y in range(h)], 'float64').copy()
    d1[1, 1] = ctx.real('d_centre', lo=-10, hi=10)
    d2[0, 2] = ctx.real('e_corner', lo=-10, hi=10)
    n1, a1 = pair(d1, 'r1')
    n2, a2 = pair(d2, 'r2')
    if fn == 'hillshade':
        calls = [('hillshade:hillshade', (225.0, 25.0)), ('hillshade:hillshade', (315.0, 45.0))]
    elif fn in ('aspect', 'slope', 'curvature'):
        calls = [('%s:%s' % (fn, fn), ()), ('%s:%s' % (fn, fn), ())]
    elif fn == 'reclassify':
        calls = [('classify:reclassify', ([1.0, 5.0], [10, 20])), ('classify:reclassify', ([2.0, 3.0, 8.0], [1, 2, 3]))]
    elif fn == 'equal_interval':
        calls = [('classify:equal_interval', (2,)), ('classify:equal_interval', (3,))]
    elif fn == 'mean1':
        calls = [('focal:mean', (1,)), ('focal:mean', (2,))]
    elif fn == 'binary':
        calls = [('classify:binary', ([1.0, 2.0],)), ('classify:binary', ([3.0, 4.5],))]
    elif fn == 'apply':
        ka = symnp.asarray([[0.0, 1.0, 0.0], [1.0, 1.0, 1.0], [0.0, 1.0, 0.0]], 'float64')
        kb = symnp.asarray([[1.0, 1.0, 1.0]], 'float64')
        calls = [('focal:apply', (ka,)), ('focal:apply', (kb,))]
    elif fn == 'focal_stats':
        ka = symnp.asarray([[0.0, 1.0, 0.0], [1.0, 1.0, 1.0], [0.0, 1.0, 0.0]], 'float64')
        calls = [('focal:focal_stats', (ka, ['max', 'sum'])), ('focal:focal_stats', (ka, ['min']))]
    elif fn == 'convolution':
        k1 = symnp.asarray([[0.0, 1.0, 0.0], [1.0, 1.0, 1.0], [0.0, 1.0, 0.0]], 'float64')
        k2 = symnp.asarray([[1.0, 0.0, 1.0], [0.0, 2.0, 0.0], [1.0, 0.0, 1.0]], 'float64')
        calls = [('convolution:convolution_2d', (k1,)), ('convolution:convolution_2d', (k2,))]
    elif fn == 'ndvi':
        calls = [('multispectral:ndvi', 'swap'), ('multispectral:ndvi', 'swap')]
    elif fn == 'perlin':
        calls = [('perlin:perlin', ((1, 1), 5)), ('perlin:perlin', ((2, 1), 5))]
    else:
        raise KeyError(fn)
    if fn == 'ndvi':
        ref = [vals(ctx.call('multispectral:ndvi', n1, n2)), vals(ctx.call('multispectral:ndvi', n2, n1))]
        got = ctx.call_joint([('multispectral:ndvi', (a1, a2), {}), ('multispectral:ndvi', (a2, a1), {})])
    elif fn == 'perlin':
        z1 = symnp.zeros((h, w), 'float32')
        pn1, pa1 = pair(z1, 'p1')
        pn2, pa2 = pair(z1, 'p2')
        ref = [vals(ctx.call(calls[0][0], pn1, *calls[0][1])), vals(ctx.call(calls[1][0], pn2, *calls[1][1]))]
        got = ctx.call_joint([(calls[0][0], (pa1,) + tuple(calls[0][1]), {}), (calls[1][0], (pa2,) + tuple(calls[1][1]), {})])
    else:
        if fn in ('hillshade', 'reclassify', 'equal_interval', 'binary', 'mean1', 'apply', 'focal_stats', 'convolution'):
            n2, a2 = n1, a1           # same raster, different parameters (a layer name derived from the input alone collides)
        ref = [vals(ctx.call(calls[0][0], n1, *calls[0][1])), vals(ctx.call(calls[1][0], n2, *calls[1][1]))]
        got = ctx.call_joint([(calls[0][0], (a1,) + tuple(calls[0][1]), {}), (calls[1][0], (a2,) + tuple(calls[1][1]), {})])
    for k_, (r, g) in enumerate(zip(ref, got)):
        gv = vals(g)
        ctx.observe('joint%d' % k_, gv)
        ok_shape = tuple(gv.shape) == tuple(r.shape)
        ctx.check('computed-together-same-shape', ok_shape)
        if not ok_shape:
            continue
        for c in cells(tuple(gv.shape)):
            ctx.check('computed-together-equals-numpy', ctx.close(gv[c], r[c], TOL32),
                      info=lambda m, c=c, k_=k_, gv=gv, r=r: {'fn': fn, 'result': k_, 'cell': list(c), 'dask_joint': ctx.ev(m, gv[c]), 'numpy': ctx.ev(m, r[c])})


def body(ctx, job):
    op = job['op']
    h, w = job['shape']
    chunks = job['chunks']
    sc.set_axioms(congruence='full' if op == 'true_color' else 'syntactic', sqrt_zero=(op != 'hotspots'), f32_store_round=bool(job.get('f32')))
    ys = coords_affine(h, 10.0 + h, -1.0)
    xs = coords_affine(w, 3.0, 2.0)
    attrs = {'res': (2.0, 1.0)}

    def pair(data, name='r', ch=None):
        return (raster(data.copy(), ys=ys, xs=xs, name=name, attrs=dict(attrs)),
                raster(data.copy(), ys=ys, xs=xs, name=name, attrs=dict(attrs), chunks=ch or chunks))

    def compare(res_np, res_da, label, exact=True):
        lazy = isinstance(res_da.data, symda.Array)
        ctx.check('result-stays-dask-backed', lazy, info={'op': op})
        a = vals(res_np)
        b = vals(res_da)
        ctx.observe(label, b)
        ok_shape = tuple(a.shape) == tuple(b.shape)
        ctx.check('same-shape', ok_shape)
        if not ok_shape:
            return
        for c in cells(tuple(a.shape)):
            ctx.check(label + '-dask-equals-numpy', same(b[c], a[c]) if exact else ctx.close(b[c], a[c], TOL32),
                      info=lambda m, c=c: {'op': op, 'cell': list(c), 'chunks': chunks, 'dask': ctx.ev(m, b[c]), 'numpy': ctx.ev(m, a[c])})

    dt = job.get('dtype', 'float64')
    if op == 'joint':
        return body_joint(ctx, job, pair, h, w)
    if op == 'hillshade-angles':
        # non-default, symbolic illumination: both backends must receive both parameters
        d = ctx.array('d', (h, w), dt, nan=True)
        a_np, a_da = pair(d)
        az = ctx.real('azimuth', lo=0, hi=360)
        alt = ctx.real('angle_altitude', lo=0, hi=90)
        compare(ctx.call('hillshade:hillshade', a_np, az, alt), ctx.call('hillshade:hillshade', a_da, az, alt), 'hillshade')
    elif op in ('slope', 'aspect', 'curvature', 'hillshade'):
        d = ctx.array('d', (h, w), dt, nan=True)
        a_np, a_da = pair(d)
        compare(ctx.call('%s:%s' % (op, op), a_np), ctx.call('%s:%s' % (op, op), a_da), op)
    elif op in ('mean1', 'mean2'):
        d = ctx.array('d', (h, w), dt, nan=False)
        a_np, a_da = pair(d)
        p = int(op[-1])
        compare(ctx.call('focal:mean', a_np, p), ctx.call('focal:mean', a_da, p), op, exact=False)
    elif op in ('mean1e', 'mean2e'):
        # excludes=[0]: a fixed raster with some zero cells and two symbolic cells (every comparison with the excluded value forks, so the
        # all-symbolic version is out of reach for two passes)
        d = symnp.asarray([[float((y * 5 + x * 3) % 4) for x in range(w)] for y in range(h)], 'float64').copy()
        for k_, (y, x) in enumerate(((0, 1), (h - 1, w - 2))):
            d[y, x] = ctx.real('d%d' % k_)
        a_np, a_da = pair(d)
        p = int(op[4])
        compare(ctx.call('focal:mean', a_np, p, [0.0]), ctx.call('focal:mean', a_da, p, [0.0]), op, exact=False)
    elif op in ('apply', 'focal_stats', 'convolution', 'hotspots'):
        kr, kc = KERNELS[job['kernel']]
        if op == 'hotspots':
            # the z-score quotient makes every feasibility query nonlinear: three symbolic cells (one per chunk row / column region), the rest concrete
            d = symnp.asarray([[float((y * 3 + x * 5) % 7) for x in range(w)] for y in range(h)], 'float64').copy()
            for k_, (y, x) in enumerate(((0, 0), (1, 2), (h - 1, w - 1))):
                d[y, x] = ctx.real('d%d' % k_)
        else:
            d = ctx.array('d', (h, w), dt, nan=(op == 'apply'))
        a_np, a_da = pair(d)
        if op == 'convolution':
            k = ctx.array('k', (kr, kc), 'float64', nan=False)
            compare(ctx.call('convolution:convolution_2d', a_np, k), ctx.call('convolution:convolution_2d', a_da, k), op, exact=False)
        elif op == 'apply':
            k = symnp.ones((kr, kc), 'float64')
            k[0, 0] = 0.0
            compare(ctx.call('focal:apply', a_np, k, userfuncs.pos_weighted_sum), ctx.call('focal:apply', a_da, k, userfuncs.pos_weighted_sum), op, exact=False)
        elif op == 'focal_stats':
            k = symnp.ones((kr, kc), 'float64')
            compare(ctx.call('focal:focal_stats', a_np, k, ['max', 'sum']), ctx.call('focal:focal_stats', a_da, k, ['max', 'sum']), op, exact=False)
        else:
            k = symnp.ones((kr, kc), 'float64')
            e1 = ctx.raises(ctx.call, 'focal:hotspots', a_np, k)
            r_np = ctx.last
            if e1 is not None:
                raise Skip()        # constant raster: the numpy path raises by design, the dask path documents that it does not
            compare(r_np, ctx.call('focal:hotspots', a_da, k), op)
    elif op == 'binary':
        d = ctx.array('d', (h, w), 'float64', nan=True)
        a_np, a_da = pair(d)
        v = [ctx.real('v1'), ctx.real('v2')]
        compare(ctx.call('classify:binary', a_np, v), ctx.call('classify:binary', a_da, v), op)
    elif op == 'reclassify':
        d = ctx.array('d', (h, w), 'float64', nan=True)
        a_np, a_da = pair(d)
        b1, b2 = ctx.real('b1'), ctx.real('b2')
        ctx.assume(b1 < b2)
        compare(ctx.call('classify:reclassify', a_np, [b1, b2], [10, 20]), ctx.call('classify:reclassify', a_da, [b1, b2], [10, 20]), op)
    elif op == 'equal_interval':
        d = ctx.array('d', (h, w), 'float64', nan=True)
        dl = d.flat_values()
        ctx.assume(Or(*[And(Not(isnan(dl[i])), Not(isnan(dl[j])), dl[i] != dl[j]) for i in range(len(dl)) for j in range(i)]))
        a_np, a_da = pair(d)
        exc = ctx.raises(ctx.call, 'classify:equal_interval', a_da, 2)
        r_da = ctx.last
        ctx.check('dask-backed-call-succeeds', exc is None, info={'exception': exc})
        if exc is None:
            compare(ctx.call('classify:equal_interval', a_np, 2), r_da, op)
    elif op in INDICES:
        nb = INDICES[op]
        bands = [ctx.array('b%d' % i, (h, w), 'float32', nan=True) for i in range(nb)]
        nps, das = [], []
        for i, bnd in enumerate(bands):
            # the second band arrives with a different chunking: the wrapper must align it
            a, b = pair(bnd, 'b%d' % i, ch=job['chunks2'] if i == 1 else None)
            nps.append(a)
            das.append(b)
        compare(ctx.call('multispectral:' + op, *nps), ctx.call('multispectral:' + op, *das), op)
    elif op == 'true_color':
        bands = [ctx.array(n, (h, w), 'float64', nan=(n == 'r')) for n in ('r', 'g', 'b')]
        nps, das = zip(*[pair(b, n) for b, n in zip(bands, 'rgb')])
        nodata = ctx.real('nodata')
        compare(ctx.call('multispectral:true_color', *nps, nodata), ctx.call('multispectral:true_color', *das, nodata), op, exact=False)
    elif op == 'perlin':
        z = symnp.zeros((h, w), 'float32')
        a_np, a_da = pair(z)
        for seed_, freq in ((5, (1, 1)), (11, (2, 3))):
            compare(ctx.call('perlin:perlin', a_np, freq, seed_), ctx.call('perlin:perlin', a_da, freq, seed_), op, exact=False)
    elif op == 'terrain':
        z = symnp.zeros((h, w), 'float32')
        r_np = ctx.call('terrain:_terrain_numpy', z.copy(), 10, (0.0, 0.5), (0.25, 0.375), 4000.0)
        zd = symda.Array(z.copy(), tuple(tuple(c) for c in chunks))
        r_da = ctx.call('terrain:_terrain_dask_numpy', zd, 10, (0.0, 0.5), (0.25, 0.375), 4000.0)
        a = r_np
        b = r_da.compute() if isinstance(r_da, symda.Array) else r_da
        ctx.check('result-stays-dask-backed', isinstance(r_da, symda.Array))
        ctx.observe('terrain', b)
        for c in cells((h, w)):
            ctx.check('terrain-dask-equals-numpy', ctx.close(b[c], a[c], TOL32))
