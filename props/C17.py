"""C17 Local operators are per-cell functions of the layers, NaN-absorbing."""
import math

import numpy as _np

from sx import symnp, symxr, core as sc
from sx.harness import TOL64
from .common import cells, And, Or, Not, Implies, ite, isnan, same, vals, Skip, Sum, coords_affine

ID = 'C17'
LEVEL = 'model_checking'
META = {
    'modules': ['local'],
    'functions': ['xrspatial.local.' + f for f in ('cell_stats', 'combine', 'lesser_frequency', 'equal_frequency', 'greater_frequency', 'lowest_position',
                                                   'highest_position', 'rank')],
    'bounds': {'quick': 'datasets of 3 layers (4 for lowest/highest position; 2 and 4 for the median), shapes 1x2 (every value symbolic, NaN allowed, ties possible) and 2x3 (one symbolic cell at each '
                        'position, the rest concrete) to expose the column-count reshape; data_vars: all, subsets and non-dataset orders; reference layer symbolic integer in 1..n+1; mixed layer dtypes (int32 / float64 / float32 and float32 / int64 / float64) for rank, cell_stats mean / max, lesser_frequency, highest_position, combine',
               'thorough': '4 layers everywhere, 5 for the position operators, 1x3 all-symbolic'},
    'stubs': ['xarray.Dataset = sx.symxr mini Dataset', 'dict / Counter / sorted / list.index on symbolic scalars work through forking == and < (constant hash)'],
    'outside': ['more than 5 layers', 'popularity (not defined by the property statement)', 'float rounding of mean / std'],
    'assumptions': [],
    'budget_s': {'quick': 150, 'thorough': 1200},
}

FUNCS = ('sum', 'mean', 'min', 'max', 'median', 'std')


def jobs(tier, seed):
    out = []
    L = 3 if tier == 'quick' else 4
    for f in FUNCS:
        out.append({'name': 'cell_stats-' + f, 'op': 'cell_stats', 'func': f, 'layers': L, 'shape': [1, 2], 'sym': 'all', 'data_vars': None})
    # an even number of layers: the median is the mean of the two middle values
    for n in (2, 4):
        out.append({'name': 'cell_stats-median-%d-layers' % n, 'op': 'cell_stats', 'func': 'median', 'layers': n, 'shape': [1, 1], 'sym': 'all', 'data_vars': None})
    out.append({'name': 'cell_stats-sum-subset-reordered', 'op': 'cell_stats', 'func': 'sum', 'layers': 3, 'shape': [1, 2], 'sym': 'all', 'data_vars': [2, 0]})
    for op in ('lesser_frequency', 'equal_frequency', 'greater_frequency', 'rank'):
        out.append({'name': op + '-all', 'op': op, 'layers': L, 'shape': [1, 2], 'sym': 'all', 'data_vars': None, 'ref': 0})
        out.append({'name': op + '-explicit-vars', 'op': op, 'layers': 4, 'shape': [1, 1], 'sym': 'all', 'data_vars': [3, 1], 'ref': 2})
    out.append({'name': 'frequencies-sum-to-layer-count', 'op': 'freq-sum', 'layers': L, 'shape': [1, 2], 'sym': 'all', 'data_vars': None, 'ref': 1})
    for op in ('lowest_position', 'highest_position'):
        out.append({'name': op + '-all', 'op': op, 'layers': L + 1, 'shape': [1, 1], 'sym': 'all', 'data_vars': None})
        out.append({'name': op + '-reordered-vars', 'op': op, 'layers': 3, 'shape': [1, 2], 'sym': 'all', 'data_vars': [2, 0, 1]})
        out.append({'name': op + '-subset-vars', 'op': op, 'layers': 4, 'shape': [1, 1], 'sym': 'all', 'data_vars': [3, 0]})
    # mixed layer dtypes (an integer first layer next to non-integer floats): the result must not inherit a layer's dtype
    for op, extra in (('rank', {'ref': 1}), ('cell_stats', {'func': 'mean'}), ('cell_stats', {'func': 'max'}), ('lesser_frequency', {'ref': 2}), ('highest_position', {}), ('combine', {})):
        for dts in (['int32', 'float64', 'float32'], ['float32', 'int64', 'float64']):
            if op == 'combine':
                dts = dts[:2]
            out.append(dict({'name': '%s%s-mixed-%s' % (op, '-' + extra['func'] if 'func' in extra else '', '-'.join(dts)), 'op': op, 'layers': len(dts), 'shape': [1, 2], 'sym': 'all',
                             'data_vars': None, 'dtypes': dts}, **extra))
    # 64-bit integer ids next to a float layer: tuples that differ only beyond 2^53 are different tuples (concrete values)
    out.append({'name': 'combine-int64-beyond-2p53', 'op': 'combine', 'layers': 2, 'shape': [1, 3], 'sym': 'all', 'data_vars': None,
                'concrete': [[[2 ** 53, 2 ** 53 + 1, 5]], [[1.0, 1.0, 1.0]]], 'dtypes': ['int64', 'float64']})
    out.append({'name': 'combine-1x3', 'op': 'combine', 'layers': 2, 'shape': [1, 3], 'sym': 'all', 'data_vars': None})
    out.append({'name': 'combine-2x2-reordered', 'op': 'combine', 'layers': 2, 'shape': [2, 2], 'sym': 'all', 'data_vars': [1, 0]})
    # non-square raster, one symbolic cell per job position: output cell (y, x) must depend on input cell (y, x) only
    for pos in cells((2, 3)):
        for op in ('cell_stats', 'lowest_position', 'rank', 'combine'):
            if tier == 'quick' and op in ('rank', 'combine') and pos not in ((0, 2), (1, 0)):
                continue
            out.append({'name': '%s-2x3-cell%d%d' % (op, pos[0], pos[1]), 'op': op, 'func': 'max', 'layers': 3, 'shape': [2, 3], 'sym': list(pos), 'data_vars': None, 'ref': 0})
    # memory layout of the layers must not matter: every layer Fortran-ordered (np.nditer's default order follows memory), and a mix
    for lay in ('F', 'mixed'):
        for op in ('cell_stats', 'lowest_position', 'rank', 'combine', 'equal_frequency'):
            out.append({'name': '%s-2x3-layout-%s' % (op, lay), 'op': op, 'func': 'max', 'layers': 2 if op == 'combine' else 3, 'shape': [2, 3], 'sym': [0, 1], 'data_vars': None, 'ref': 0,
                        'layout': lay})
    return out


def _forder(arr):
    h, w = arr.shape
    idx = _np.arange(h * w).reshape(w, h).T
    buf = [None] * (h * w)
    for (y, x) in cells((h, w)):
        buf[int(idx[y, x])] = arr[y, x]
    a = symnp.SymArray(buf, idx, arr.dtype)
    a._sx_layout = 'F'
    return a


def _dataset(ctx, job):
    L = job['layers']
    h, w = job['shape']
    names = ['v%d' % i for i in range(L)]
    layers = {}
    raw = {}
    for li, nm in enumerate(names):
        if job.get('concrete'):
            a = symnp.asarray(job['concrete'][li], job['dtypes'][li]).copy()
        elif job['sym'] == 'all':
            dt = (job.get('dtypes') or ['float64'] * L)[li]
            a = ctx.array(nm, (h, w), dt, nan=True, **({'lo': -3, 'hi': 3} if dt[0] in 'iu' else {}))
        else:
            py, px = job['sym']
            a = symnp.asarray([[float((li + 1) * 10 + ((y * 7 + x * 3 + li * 5) % 4)) for x in range(w)] for y in range(h)], 'float64').copy()
            a[py, px] = ctx.real('%s_cell' % nm, nan=True)
        lay = job.get('layout')
        if lay == 'F' or (lay == 'mixed' and li % 2 == 0):
            a = _forder(a)
        raw[nm] = a
        layers[nm] = symxr.DataArray(a, dims=('y', 'x'), coords={'y': coords_affine(h, float(h - 1), -1.0), 'x': coords_affine(w, 0.0, 1.0)}, name=nm)
    return names, raw, symxr.Dataset(layers)


def body(ctx, job):
    sc.set_axioms(sqrt_exact=True)
    op = job['op']
    h, w = job['shape']
    names, raw, ds = _dataset(ctx, job)
    L = job['layers']
    dv = [names[i] for i in job['data_vars']] if job.get('data_vars') is not None else None
    ref_name = None
    if op in ('lesser_frequency', 'equal_frequency', 'greater_frequency', 'rank', 'freq-sum'):
        ref_name = names[job['ref']]
        # integer-valued reference layer in 1 .. n+1 (n+1 exercises the out-of-range rank)
        sel = [n for n in (dv if dv is not None else names) if n != ref_name]
        refarr = symnp.zeros((h, w), 'int64')
        for (y, x) in cells((h, w)):
            if job['sym'] == 'all' or [y, x] == job['sym']:
                refarr[y, x] = ctx.integer('ref_%d_%d' % (y, x), 1, len(sel) + 1)
            else:
                refarr[y, x] = 1 + (y + x) % len(sel)
        if job.get('layout') in ('F', 'mixed'):
            refarr = _forder(refarr)          # the (non-constant) reference layer in Fortran order as well
        raw[ref_name] = refarr
        ds[ref_name] = symxr.DataArray(refarr, dims=('y', 'x'), name=ref_name)
    else:
        sel = dv if dv is not None else names

    def call(fn, *extra):
        if fn == 'cell_stats':
            return ctx.call('local:cell_stats', ds, dv, extra[0])
        if dv is None:
            return ctx.call('local:' + fn, ds, *extra)
        return ctx.call('local:' + fn, ds, *extra, dv)

    if op == 'freq-sum':
        a = vals(call('lesser_frequency', ref_name))
        b = vals(call('equal_frequency', ref_name))
        c = vals(call('greater_frequency', ref_name))
        for pos in cells((h, w)):
            anynan = Or(*[isnan(raw[n][pos]) for n in sel])
            tot = a[pos] + b[pos] + c[pos]
            ctx.check('three-frequencies-sum-to-layer-count', Or(And(anynan, isnan(tot)), And(Not(anynan), tot == len(sel))))
        return

    if op == 'cell_stats':
        res = call('cell_stats', job['func'])
    elif op in ('lesser_frequency', 'equal_frequency', 'greater_frequency', 'rank'):
        res = call(op, ref_name)
    else:
        res = call(op)
    out = vals(res)
    ctx.observe('out', out)
    ctx.check('shape', tuple(out.shape) == (h, w))
    if tuple(out.shape) != (h, w):
        return
    if op == 'combine':
        return check_combine(ctx, job, res, out, raw, sel)
    for pos in cells((h, w)):
        if job['sym'] != 'all' and list(pos) != job['sym'] and op != 'cell_stats':
            pass
        v = [raw[n][pos] for n in sel]
        anynan = Or(*[isnan(x) for x in v])
        o = out[pos]
        info = (lambda m, pos=pos, v=v, o=o: {'cell': list(pos), 'layers': [ctx.ev(m, x) for x in v], 'got': ctx.ev(m, o)})
        ctx.check('nan-in-a-data-layer-gives-nan', Implies(anynan, isnan(o)), info)
        n = len(v)
        if op == 'cell_stats':
            f = job['func']
            if f == 'sum':
                ctx.check('cell_stats-sum', Implies(Not(anynan), ctx.close(o, Sum(v), TOL64)), info)
            elif f == 'mean':
                ctx.check('cell_stats-mean', Implies(Not(anynan), ctx.close(o * n, Sum(v), TOL64)), info)
            elif f in ('min', 'max'):
                bound = And(*[(o <= x) if f == 'min' else (o >= x) for x in v])
                ctx.check('cell_stats-' + f, Implies(Not(anynan), And(bound, Or(*[o == x for x in v]))), info)
            elif f == 'median':
                # the median is a value (or mean of two values) with at least half of the layers on either side
                le = Sum([ite(x <= o, 1, 0) for x in v])
                ge = Sum([ite(x >= o, 1, 0) for x in v])
                ctx.check('cell_stats-median', Implies(Not(anynan), And(2 * le >= n, 2 * ge >= n)), info)
                if n % 2:
                    ctx.check('cell_stats-median-is-a-layer-value', Implies(Not(anynan), Or(*[o == x for x in v])), info)
                # exact: the middle order statistic, or the mean of the two middle ones (sorting network of min / max)
                srt = list(v)
                for a in range(n):
                    for b in range(n - 1 - a):
                        lo_, hi_ = ite(srt[b] <= srt[b + 1], srt[b], srt[b + 1]), ite(srt[b] <= srt[b + 1], srt[b + 1], srt[b])
                        srt[b], srt[b + 1] = lo_, hi_
                want2 = 2 * srt[n // 2] if n % 2 else srt[n // 2 - 1] + srt[n // 2]
                ctx.check('cell_stats-median-exact', Implies(Not(anynan), ctx.close(2 * o, want2, TOL64)), info)
            elif f == 'std':
                sm = Sum(v)
                sq = Sum([x * x for x in v])
                ctx.check('cell_stats-std', Implies(Not(anynan), And(o >= 0, ctx.close(o * o * n * n, n * sq - sm * sm, TOL64))), info)
        elif op in ('lesser_frequency', 'equal_frequency', 'greater_frequency'):
            r = raw[ref_name][pos]
            cmpf = {'lesser_frequency': lambda x: r > x, 'equal_frequency': lambda x: r == x, 'greater_frequency': lambda x: r < x}[op]
            ctx.check(op, Implies(Not(anynan), o == Sum([ite(cmpf(x), 1, 0) for x in v])), info)
        elif op in ('lowest_position', 'highest_position'):
            want = n
            for i in range(n - 1, -1, -1):
                best = And(*[(v[i] <= x) if op == 'lowest_position' else (v[i] >= x) for x in v])
                want = ite(best, i + 1, want)
            ctx.check(op + '-first-extreme-1-based', Implies(Not(anynan), o == want), info)
        elif op == 'rank':
            r = raw[ref_name][pos]
            # ref-th smallest: a layer value x with  #(< x) <= ref-1  and  #(<= x) >= ref
            cond = Or(*[And(o == x, Sum([ite(y_ < x, 1, 0) for y_ in v]) <= r - 1, Sum([ite(y_ <= x, 1, 0) for y_ in v]) >= r) for x in v])
            ctx.check('rank-ref-th-smallest', Implies(And(Not(anynan), r <= n), cond),
                      info=lambda m, pos=pos, v=v, o=o, r=r: {'cell': list(pos), 'layers': [ctx.ev(m, x) for x in v], 'ref': ctx.ev(m, r), 'got': ctx.ev(m, o)})
            ctx.check('rank-out-of-range-nan', Implies(r > n, isnan(o)))


def check_combine(ctx, job, res, out, raw, sel):
    h, w = job['shape']
    pos_list = cells((h, w))
    tup = {p: [raw[n][p] for n in sel] for p in pos_list}
    nanp = {p: Or(*[isnan(x) for x in tup[p]]) for p in pos_list}

    def eq(p, q):
        return And(*[a == b for a, b in zip(tup[p], tup[q])])
    key = res.attrs.get('key')
    ctx.check('key-in-attrs', isinstance(key, dict))
    for i, p in enumerate(pos_list):
        ctx.check('nan-in-a-data-layer-gives-nan', Implies(nanp[p], isnan(out[p])))
        # first-occurrence numbering: id = 1 + number of distinct non-NaN tuples first seen before p ... for a first occurrence;
        first = And(Not(nanp[p]), *[Or(nanp[q], Not(eq(p, q))) for q in pos_list[:i]])
        nfirst_before = Sum([ite(And(Not(nanp[q]), *[Or(nanp[r], Not(eq(q, r))) for r in pos_list[:j]]), 1, 0) for j, q in enumerate(pos_list[:i])])
        ctx.check('ids-from-1-in-first-occurrence-order', Implies(first, out[p] == nfirst_before + 1),
                  info=lambda m, p=p: {'cell': list(p), 'got': ctx.ev(m, out[p]), 'tuples': [[ctx.ev(m, x) for x in tup[q]] for q in pos_list]})
        for q in pos_list[:i]:
            ctx.check('same-id-iff-equal-tuples', Implies(And(Not(nanp[p]), Not(nanp[q])), (out[p] == out[q]) == eq(p, q)) if False else
                      Implies(And(Not(nanp[p]), Not(nanp[q])), And(Implies(eq(p, q), out[p] == out[q]), Implies(out[p] == out[q], eq(p, q)))))
    if isinstance(key, dict):
        # the key maps each id back to its tuple (ids are concrete per path)
        for p in pos_list:
            o = out[p]
            oc = sc.as_const(o) if sc.is_sym(o) else o
            if isinstance(oc, float) and oc != oc:
                continue
            if oc is None:
                continue
            k = int(oc)
            ok = k in key and len(key[k]) == len(sel)
            ctx.check('key-has-id', ok)
            if ok:
                ctx.check('key-maps-id-to-tuple', And(*[a == b for a, b in zip(key[k], tup[p])]))
