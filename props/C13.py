"""C13 Spectral indices equal their band formulas, NaN where undefined."""
import math

import z3

from sx import symnp, core as sc
from sx.harness import TOL32
from .common import raster, coords_affine, cells, And, Or, Not, Implies, ite, isnan, same, vals, Skip
from sx.harness import isinf

ID = 'C13'
LEVEL = 'model_checking'
META = {
    'modules': ['multispectral', 'utils'],
    'functions': ['xrspatial.multispectral.' + f for f in ('arvi', 'evi', 'gci', 'nbr', 'nbr2', 'ndvi', 'ndmi', 'savi', 'sipi', 'ebbi', 'true_color',
                                                           '_arvi_cpu', '_evi_cpu', '_gci_cpu', '_normalized_ratio_cpu', '_savi_cpu', '_sipi_cpu', '_ebbi_cpu',
                                                           '_normalize_data_cpu', '_true_color_numpy')] + ['xrspatial.utils.validate_arrays'],
    'bounds': {'quick': 'band rasters 2x2 (1x2 for the swap / scale / true_color jobs), every cell symbolic (NaN allowed for float dtypes), dtypes float32, float64, uint8, '
                        'uint16, int32; c1, c2, soil_factor, gain, nodata symbolic; one bit-exact job (z3 FloatingPoint): _normalized_ratio_cpu on two arbitrary finite non-negative IEEE singles',
               'thorough': 'same plus 2x3 rasters'},
    'stubs': ['numba.jit = identity', 'np.exp / np.sqrt Ackermannised'],
    'outside': ['float32 rounding of the arithmetic (exact reals; the single-precision statement is covered only as "integer inputs are converted before the arithmetic")',
                'overflow to +-inf for |band| near 3e38', 'SAVI is checked against the formula the library documents in its own tests, '
                '(nir-red)/((nir+red+L)(1+L)), which differs from Huete (1988) (see DESIGN.md)', 'CUDA paths'],
    'assumptions': ['bands finite or NaN (no infinities)'],
    'technique': 'solver-based bounded symbolic execution of the real Python source (z3), counterexample replay on the real build; one lemma bit-exact over z3 FloatingPoint (QF_FP)',
    'budget_s': {'quick': 150, 'thorough': 900},
}

# name -> (band argument names, formula over those bands + params)
INDICES = {
    'arvi': (('nir', 'red', 'blue'), lambda b, p: ((b['nir'] - 2.0 * b['red'] + b['blue']), (b['nir'] + 2.0 * b['red'] + b['blue']), 1.0)),
    'evi': (('nir', 'red', 'blue'), lambda b, p: ((b['nir'] - b['red']), (b['nir'] + p['c1'] * b['red'] - p['c2'] * b['blue'] + p['soil_factor']), p['gain'])),
    'gci': (('nir', 'green'), None),
    'nbr': (('nir', 'swir2'), lambda b, p: ((b['nir'] - b['swir2']), (b['nir'] + b['swir2']), 1.0)),
    'nbr2': (('swir1', 'swir2'), lambda b, p: ((b['swir1'] - b['swir2']), (b['swir1'] + b['swir2']), 1.0)),
    'ndvi': (('nir', 'red'), lambda b, p: ((b['nir'] - b['red']), (b['nir'] + b['red']), 1.0)),
    'ndmi': (('nir', 'swir1'), lambda b, p: ((b['nir'] - b['swir1']), (b['nir'] + b['swir1']), 1.0)),
    'savi': (('nir', 'red'), lambda b, p: ((b['nir'] - b['red']), (b['nir'] + b['red'] + p['soil_factor']) * (1.0 + p['soil_factor']), 1.0)),
    'sipi': (('nir', 'red', 'blue'), lambda b, p: ((b['nir'] - b['blue']), (b['nir'] - b['red']), 1.0)),
    'ebbi': (('red', 'swir', 'tir'), None),
}
NORMDIFF = ('nbr', 'nbr2', 'ndvi', 'ndmi')


def jobs(tier, seed):
    out = []
    shp = [2, 2]
    for fn in INDICES:
        for dt in ('float32', 'uint8', 'int32') + (('float64', 'uint16') if tier != 'quick' or fn in ('ndvi', 'evi') else ()):
            out.append({'name': '%s-formula-%s' % (fn, dt), 'kind': 'formula', 'fn': fn, 'shape': shp if tier == 'quick' else [2, 3], 'dtype': dt})
    for fn in NORMDIFF:
        out.append({'name': fn + '-range-swap-scale', 'kind': 'normdiff', 'fn': fn, 'shape': [1, 2], 'dtype': 'float32'})
    for fn in ('evi', 'savi'):
        out.append({'name': fn + '-param-validation', 'kind': 'params', 'fn': fn, 'shape': [1, 1], 'dtype': 'float32'})
    out.append({'name': 'shape-mismatch-rejected', 'kind': 'shapes', 'fn': 'ndvi', 'shape': [1, 2], 'dtype': 'float32'})
    # bit-exact single-precision lemma for the shared normalised-ratio kernel (QF_FP, no real-number abstraction)
    # 'swap' and 'scale' (bit-for-bit antisymmetry / power-of-two invariance) are encodable below but z3 5.1 and cvc5 1.0.3 both
    # answer unknown after 600 s (equivalence of two division circuits), so they are not registered; those clauses are claimed
    # over exact reals only (kind 'sym' jobs above)
    for lemma in ('range',):
        out.append({'name': 'float32-normalised-ratio-lemma-' + lemma, 'kind': 'fp32', 'lemma': lemma, 'fn': 'ndvi', 'shape': [1, 1], 'dtype': 'float32'})
    for dt in ('float32', 'uint8'):
        out.append({'name': 'true_color-' + dt, 'kind': 'true_color', 'fn': 'true_color', 'shape': [1, 2], 'dtype': dt})
    out.append({'name': 'true_color-2x2', 'kind': 'true_color', 'fn': 'true_color', 'shape': [2, 2], 'dtype': 'float64'})
    # alpha must be decided on the red band as given, not on a float32-rounded copy (float32 store model; float64 and int32 bands)
    for dt in ('float64', 'int32'):
        out.append({'name': 'true_color-alpha-float32-store-model-' + dt, 'kind': 'true_color', 'fn': 'true_color', 'shape': [1, 2], 'dtype': dt, 'f32': True})
    return out


def _band(ctx, name, shape, dt):
    if dt.startswith('float'):
        return ctx.array(name, shape, dt, nan=True)
    info = {'uint8': (0, 255), 'uint16': (0, 65535), 'int32': (-100000, 100000)}[dt]
    return ctx.array(name, shape, dt, lo=info[0], hi=info[1])


def _ref(fn, b, p):
    if fn == 'gci':
        return ite(isnan(b['green']), math.nan, ite(b['green'] == 0, math.nan, b['nir'] / b['green'] - 1))
    if fn == 'ebbi':
        den = 10 * symnp.sqrt(b['swir'] + b['tir'])
        return ite(Or(isnan(den), den == 0), math.nan, (b['swir'] - b['red']) / den)
    num, den, gain = INDICES[fn][1](b, p)
    return ite(Or(isnan(den), den == 0), math.nan, gain * (num / den))


def _flt(v):
    return sc.SF.lift(v) if isinstance(v, (sc.SI, int)) and not isinstance(v, bool) else v


def body(ctx, job):
    fn = job['fn']
    h, w = job['shape']
    dt = job['dtype']
    kind = job['kind']
    sc.set_axioms()
    if kind == 'true_color':
        return body_true_color(ctx, job)
    if kind == 'fp32':
        return body_fp32(ctx, job)
    names = INDICES[fn][0]
    bands = {n: _band(ctx, n, (h, w), dt) for n in names}
    rasters = {n: raster(bands[n], attrs={'res': 1}, name=n) for n in names}
    params = {}
    kw = {}
    if fn == 'evi':
        params = {'c1': 6.0, 'c2': 7.5, 'soil_factor': ctx.real('soil_factor', lo=-1, hi=1), 'gain': ctx.real('gain', lo=0)}
        kw = dict(soil_factor=params['soil_factor'], gain=params['gain'])
    if fn == 'savi':
        params = {'soil_factor': ctx.real('soil_factor', lo=-1, hi=1)}
        kw = dict(soil_factor=params['soil_factor'])
    args = [rasters[n] for n in names]

    if kind == 'params':
        sf = ctx.real('soil_factor_any')
        gain = ctx.real('gain_any')
        if fn == 'evi':
            exc = ctx.raises(ctx.call, 'multispectral:evi', *args, soil_factor=sf, gain=gain)
            bad = Or(sf > 1.0, sf < -1.0, gain < 0)
        else:
            exc = ctx.raises(ctx.call, 'multispectral:savi', *args, soil_factor=sf)
            bad = Or(sf > 1.0, sf < -1.0)
        ctx.check('invalid-parameters-rejected', Implies(bad, exc == 'ValueError'))
        ctx.check('valid-parameters-accepted', Implies(Not(bad), exc is None))
        return
    if kind == 'shapes':
        other = raster(ctx.array('other', (h, w + 1), dt, nan=True), name='other')
        exc = ctx.raises(ctx.call, 'multispectral:ndvi', rasters['nir'], other)
        ctx.check('shape-mismatch-raises', exc == 'ValueError')
        return

    res = ctx.call('multispectral:' + fn, *args, **kw)
    out = vals(res)
    ctx.observe('out', out)
    if kind == 'formula':
        ctx.check('identity', And(out.shape == (h, w), str(out.dtype) == 'float32', res.dims == rasters[names[0]].dims))
        for c in cells((h, w)):
            b = {n: _flt(bands[n][c]) for n in names}
            ref = _ref(fn, b, params)
            ctx.check('formula', ctx.close(out[c], ref, TOL32), info=lambda m, c=c, ref=ref: {'cell': list(c), 'got': ctx.ev(m, out[c]), 'want': ctx.ev(m, ref)})
            ctx.check('never-infinite', Not(isinf(out[c])))
            anynan = Or(*[isnan(b[n]) for n in names])
            ctx.check('nan-bands-propagate', Implies(anynan, isnan(out[c])))
    elif kind == 'normdiff':
        a_name, b_name = names
        swapped = vals(ctx.call('multispectral:' + fn, rasters[b_name], rasters[a_name]))
        k = ctx.real('k', lo=0.001, hi=1024)
        sa = raster(bands[a_name] * k, name='sa')
        sb = raster(bands[b_name] * k, name='sb')
        scaled = vals(ctx.call('multispectral:' + fn, sa, sb))
        for c in cells((h, w)):
            a, b = bands[a_name][c], bands[b_name][c]
            o = out[c]
            ctx.check('range-for-non-negative-bands', Implies(And(a >= 0, b >= 0, Not(isnan(o))), And(o >= -1 - 1e-6, o <= 1 + 1e-6)))
            ctx.check('swap-changes-sign', Or(And(isnan(o), isnan(swapped[c])), ctx.close(swapped[c], -o, TOL32)))
            ctx.check('scale-invariant', ctx.close(scaled[c], o, TOL32))


def body_true_color(ctx, job):
    h, w = job['shape']
    dt = job['dtype']
    if job.get('f32'):
        sc.set_axioms(f32_store_round=True)
    r = _band(ctx, 'r', (h, w), dt)
    g = _band(ctx, 'g', (h, w), dt)
    b = _band(ctx, 'b', (h, w), dt)
    nodata = ctx.real('nodata') if dt.startswith('float') else ctx.integer('nodata', -3, 300)
    ys = coords_affine(h, float(h - 1), -1.0)
    xs = coords_affine(w, 0.0, 1.0)
    R, G, B = (raster(x, ys=ys, xs=xs, name=n, attrs={'res': 1}) for x, n in ((r, 'r'), (g, 'g'), (b, 'b')))
    res = ctx.call('multispectral:true_color', R, G, B, nodata)
    out = vals(res)
    ctx.observe('alpha', [out[y, x, 3] for (y, x) in cells((h, w))])
    ctx.check('rgba-shape-and-dtype', And(out.shape == (h, w, 4), str(out.dtype) == 'uint8'))
    for (y, x) in cells((h, w)):
        red = _flt(r[y, x])
        transparent = Or(isnan(red), red <= nodata)
        ctx.check('alpha', out[y, x, 3] == ite(transparent, 0, 255),
                  info=lambda m, y=y, x=x: {'cell': [y, x], 'alpha': ctx.ev(m, out[y, x, 3]), 'red': ctx.ev(m, r[y, x]), 'nodata': ctx.ev(m, nodata)})
        for ch, band in ((0, r), (1, g), (2, b)):
            v = out[y, x, ch]
            allv = band.flat_values()
            ok_band = And(Not(isnan(_flt(band[y, x]))), Not(And(*[Or(isnan(_flt(q)), _flt(q) == _flt(allv[0])) for q in allv])))
            ctx.check('channel-in-0-255', Implies(ok_band, And(v >= 0, v <= 255)))


def _fp_same(x, y):
    """bitwise-equal-or-both-NaN for FPV / python floats (+0 == -0)"""
    if hasattr(x, 'bits') or hasattr(y, 'bits'):
        from sx.fpv import FPV
        x, y = FPV.lift(x), FPV.lift(y)
        x, y = FPV._promote(x, y)
        return sc.mkbool(z3.Or(z3.And(z3.fpIsNaN(x.t), z3.fpIsNaN(y.t)), z3.fpEQ(x.t, y.t)))
    return (x != x and y != y) or x == y


def body_fp32(ctx, job):
    """(a-b)/(a+b) in IEEE single precision, executed by the real kernel on bit-exact operands:
    lemma 'range'  finite non-negative bands: never +-inf, NaN only when the rounded denominator is zero, result in [-1, 1]
    lemma 'swap'   any finite bands: kernel(b, a) == -kernel(a, b) bit for bit
    lemma 'scale'  any finite bands below 2^125 in magnitude: kernel(2^k a, 2^k b) == kernel(a, b) bit for bit, k = 1, 2"""
    from sx.symnp import SymArray
    lemma = job.get('lemma', 'range')
    a = ctx.fp32('a')
    b = ctx.fp32('b')
    sym = ctx.mode == 'sym'

    def ratio(x, y):
        arr1 = SymArray.from_list([x], (1, 1), 'float32')
        arr2 = SymArray.from_list([y], (1, 1), 'float32')
        return ctx.call('multispectral:_normalized_ratio_cpu', arr1, arr2)[0, 0]

    if lemma == 'range':
        if sym:
            ctx.assume(sc.mkbool(z3.And(a.isfinite(), b.isfinite(), (a >= 0.0).t, (b >= 0.0).t)))
        elif not (math.isfinite(a) and math.isfinite(b) and a >= 0 and b >= 0):
            raise Skip()
        o = ratio(a, b)
        ctx.observe('ratio', o)
        if not hasattr(o, 'bits'):
            if o != o:
                ctx.check('nan-only-for-zero-denominator', (a + b) == 0.0)
            else:
                ctx.check('ratio-in-unit-interval', -1.0 <= o <= 1.0)
            return
        ctx.check('never-nan-when-denominator-nonzero', sc.mkbool(z3.Not(o.isnan())))
        ctx.check('never-infinite', sc.mkbool(z3.Not(o.isinf())))
        ctx.check('ratio-in-unit-interval', And(o >= -1.0, o <= 1.0), info=lambda m: {'a': _fpev(m, a), 'b': _fpev(m, b), 'ratio': _fpev(m, o)})
        return
    if sym:
        ctx.assume(sc.mkbool(z3.And(a.isfinite(), b.isfinite())))
    elif not (math.isfinite(a) and math.isfinite(b)):
        raise Skip()
    if lemma == 'swap':
        o1 = ratio(a, b)
        o2 = ratio(b, a)
        ctx.observe('ratio', o1)
        ctx.observe('ratio-swapped', o2)
        ctx.check('swap-negates-bit-for-bit', _fp_same(o2, -o1))
        return
    if lemma == 'scale':
        lim = float(2 ** 125)
        if sym:
            ctx.assume(And(a <= lim, a >= -lim, b <= lim, b >= -lim))
        elif not (abs(a) <= lim and abs(b) <= lim):
            raise Skip()
        o1 = ratio(a, b)
        ctx.observe('ratio', o1)
        for k in (1, 2):
            f = float(2 ** k)
            o2 = ratio(a * f, b * f)
            ctx.observe('ratio-scaled-%d' % k, o2)
            ctx.check('power-of-two-scale-invariant-bit-for-bit', _fp_same(o1, o2))
        return
    raise ValueError(lemma)


def _fpev(m, x):
    from sx import fpv
    return fpv.ev(m, x)
