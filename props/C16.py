"""C16 regions labels are exactly the connected components of equal value."""
import math

import numpy as _np

from sx import symnp, core as sc
from .common import raster, coords_affine, cells, And, Or, Not, Implies, ite, isnan, same, vals, Skip

ID = 'C16'
LEVEL = 'model_checking'
META = {
    'modules': ['zonal'],
    'functions': ['xrspatial.zonal.regions', 'xrspatial.zonal._area_connectivity'],
    'bounds': {'quick': 'rasters 1x4, 4x1, 2x3, 3x2 with every cell a symbolic value in {-1, 0, 2} or NaN (every equality / NaN pattern is a solver-decided path), neighbourhood 4 and 8; '
                        '3x3 with NaN-free cells for neighbourhood 4 and 8 under the path budget; the 4x6 "three labels meet" layout family with 4 symbolic cells; int32 rasters 2x2; NOT symbolic: every one of the 4096 layouts of a 4x3 raster over {-1, 2} and of a 3x4 raster over {0, 1} for both neighbourhoods (concrete enumeration; the symbolic 4x3 run is in the thorough tier)',
               'thorough': '3x3 with NaN exhaustively, 3x4 and 2x5 under budget'},
    'stubs': ['numba.jit = identity'],
    'outside': ['non-integer values whose isclose tolerance is not transitive', 'rasters larger than the bound'],
    'assumptions': ['cell values are integers (so that the implementation\'s isclose test is equality)'],
    'budget_s': {'quick': 300, 'thorough': 1800},
}

# the smallest known layout where three provisional labels meet at one cell (8-connectivity); 4 of its cells are made symbolic
MEET = [[0, 0, 0, 0, 0, 0], [1, 0, 1, 0, 1, 0], [1, 0, 0, 1, 0, 0], [0, 1, 1, 0, 0, 0]]


def jobs(tier, seed):
    out = []
    for shp in ([1, 4], [4, 1], [2, 3], [3, 2]):
        for n in (4, 8):
            out.append({'name': 'regions-%dx%d-n%d' % (shp[0], shp[1], n), 'shape': shp, 'n': n, 'nan': True})
    for n in (4, 8):
        out.append({'name': 'regions-3x3-n%d-nonan' % n, 'shape': [3, 3], 'n': n, 'nan': False, 'domain': [0, 1]})
    # four rows: the smallest height at which a relabelling sweep has rows "two or more above" the merge cell (tall U / comb shapes)
    # (symbolic 4x3 needs ~15 CPU-minutes per neighbourhood: thorough tier; the quick tier enumerates the 4096 binary layouts concretely,
    # values {-1, 2} so that the relative tolerance sees a negative value)
    for n in (4, 8):
        for lo in range(0, 4096, 512):
            out.append({'name': 'regions-4x3-n%d-layouts-%04d' % (n, lo), 'shape': [4, 3], 'n': n, 'nan': False, 'layouts': [lo, lo + 512], 'values': [-1.0, 2.0]})
            out.append({'name': 'regions-3x4-n%d-layouts-%04d' % (n, lo), 'shape': [3, 4], 'n': n, 'nan': False, 'layouts': [lo, lo + 512], 'values': [0.0, 1.0]})
        if tier != 'quick':
            out.append({'name': 'regions-4x3-n%d-binary' % n, 'shape': [4, 3], 'n': n, 'nan': False, 'domain': [0, 1]})
    for sym in ([[1, 2], [2, 3], [3, 1], [3, 2]], [[1, 0], [2, 0], [1, 4], [2, 3]]):
        out.append({'name': 'regions-4x6-three-labels-meet-%d%d' % (sym[0][0], sym[0][1]), 'shape': [4, 6], 'n': 8, 'nan': False, 'base': MEET, 'sym': sym, 'domain': [0, 1]})
    for n in (4, 8):
        out.append({'name': 'regions-2x2-n%d-int32' % n, 'shape': [2, 2], 'n': n, 'nan': False, 'dtype': 'int32'})
    # memory layout must not matter (Fortran-ordered input; the U shape needs a merge in the second pass)
    for n in (4, 8):
        out.append({'name': 'regions-3x3-n%d-fortran-order' % n, 'shape': [3, 3], 'n': n, 'nan': False, 'domain': [0, 1], 'layout': 'F'})
    out.append({'name': 'regions-invalid-neighbourhood', 'shape': [2, 2], 'n': 6, 'nan': False})
    if tier != 'quick':
        for n in (4, 8):
            out.append({'name': 'regions-3x3-n%d' % n, 'shape': [3, 3], 'n': n, 'nan': True})
            out.append({'name': 'regions-3x4-n%d-binary' % n, 'shape': [3, 4], 'n': n, 'nan': False, 'domain': [0, 1]})
    return out


def body(ctx, job):
    sc.set_axioms()
    h, w = job['shape']
    n = job['n']
    if job.get('layouts'):
        lo, hi = job['layouts']
        a, b = job['values']
        for bits in range(lo, hi):
            data = symnp.asarray([[(b if (bits >> (y * w + x)) & 1 else a) for x in range(w)] for y in range(h)], 'float64').copy()
            _run(ctx, job, data, h, w, n)
        return
    if job.get('base'):
        data = symnp.asarray(job['base'], 'float64').copy()
        for (y, x) in job['sym']:
            data[y, x] = ctx.real('d_%d_%d' % (y, x), nan=False)
    else:
        dt = job.get('dtype', 'float64')
        data = ctx.array('d', (h, w), dt, nan=job['nan'], **({'lo': -1, 'hi': 2} if dt[0] in 'iu' else {}))
    for v in data.flat_values():
        if sc.is_sym(v):
            ctx.assume(Or(isnan(v), *[v == k for k in job.get('domain', [-1, 0, 2])]))
    if job.get('layout') == 'F':
        idx = _np.arange(h * w).reshape(w, h).T
        buf = [None] * (h * w)
        for (y, x) in cells((h, w)):
            buf[int(idx[y, x])] = data[y, x]
        data = symnp.SymArray(buf, idx, data.dtype)
        data._sx_layout = 'F'
    _run(ctx, job, data, h, w, n)


def _run(ctx, job, data, h, w, n):
    ys = coords_affine(h, 50.0, -10.0)
    xs = coords_affine(w, 7.0, 3.0)
    from sx import symxr
    # 'band': a scalar (non-dimension) coordinate is part of the raster's identity
    agg = symxr.DataArray(data, dims=('y', 'x'), coords={'y': ys, 'x': xs, 'band': symnp.asarray(3)}, attrs={'res': (3.0, 10.0), 'units': 'km'}, name='r')
    if n not in (4, 8):
        exc = ctx.raises(ctx.call, 'zonal:regions', agg, n)
        ctx.check('invalid-neighbourhood-rejected', exc == 'ValueError')
        return
    res = ctx.call('zonal:regions', agg, n)
    out = vals(res)
    ctx.observe('labels', out)
    ctx.check('identity', And(out.shape == (h, w), res.dims == agg.dims, res.attrs == agg.attrs, list(res.coords) == list(agg.coords)))
    cs = cells((h, w))
    nanc = {c: bool(isnan(data[c])) for c in cs}
    # reference components: union-find over adjacent equal cells (equalities decided per path)
    parent = {c: c for c in cs}

    def find(c):
        while parent[c] != c:
            parent[c] = parent[parent[c]]
            c = parent[c]
        return c
    for (y, x) in cs:
        if nanc[(y, x)]:
            continue
        for dy, dx in ((0, 1), (1, 0), (1, 1), (1, -1)):
            if n == 4 and dy and dx:
                continue
            q = (y + dy, x + dx)
            if q in parent and not nanc[q] and bool(data[(y, x)] == data[q]):
                parent[find((y, x))] = find(q)
    lab = {}
    for c in cs:
        v = out[c]
        if bool(isnan(v)):
            v = math.nan
        else:
            v = sc.as_const(v) if sc.is_sym(v) else float(v)
        lab[c] = v
    info = {'labels': [lab[c] for c in cs], 'components': [list(find(c)) if not nanc[c] else None for c in cs], 'n': n}
    for c in cs:
        if nanc[c]:
            ctx.check('nan-stays-nan', lab[c] is not None and lab[c] != lab[c], info=info)
        else:
            ctx.check('labels-positive', lab[c] is not None and lab[c] == lab[c] and lab[c] > 0, info=info)
    good = [c for c in cs if not nanc[c]]
    ok = all((lab[a] == lab[b]) == (find(a) == find(b)) for i, a in enumerate(good) for b in good[:i])
    ctx.check('same-label-iff-connected-with-equal-value', ok,
              info=lambda m: dict(info, data=[ctx.ev(m, v) for v in data.flat_values()]))
