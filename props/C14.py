"""C14 A* returns a valid, shortest path between the cells the caller named."""
import itertools
import math

from sx import symnp, core as sc
from sx.harness import TOL64
from .common import raster, coords_affine, cells, And, Or, Not, Implies, ite, isnan, same, vals, Skip, pick

ID = 'C14'
LEVEL = 'model_checking'
META = {
    'modules': ['pathfinding', 'utils'],
    'functions': ['xrspatial.pathfinding.a_star_search', 'xrspatial.pathfinding._a_star_search', 'xrspatial.pathfinding._get_pixel_id',
                  'xrspatial.pathfinding._min_cost_pixel_id', 'xrspatial.pathfinding._reconstruct_path', 'xrspatial.pathfinding._find_nearest_pixel',
                  'xrspatial.pathfinding._is_not_crossable', 'xrspatial.utils.get_dataarray_resolution'],
    'bounds': {'quick': 'pixel id: axes of 2..5 cells, symbolic origin, step (either sign) and point; A*: every crossability layout (2^9) of a 3x3 surface for a '
                        'seeded subset of the 81 start/goal pairs x connectivity {4,8}, every layout (2^12) of 3x4 for the four opposite-corner pairs and 4 seeded pairs at connectivity 8, one symbolic barrier value, two / three concrete barrier values listed out of order (2x3), snap on/off on 2x3',
               'thorough': 'all 81 pairs of 3x3 for both connectivities, all pairs of 2x4, seeded pairs of 3x4 (4096 layouts each)'},
    'stubs': ['numba.jit = identity', 'warnings.warn = no-op'],
    'outside': ['grids larger than the bound', 'float64 rounding of (p - c0)/cellsize (the quotient is an exact real)',
                'surfaces with no crossable cell while snapping is on'],
    'assumptions': ['coordinates are affine in the index (regular grid)', 'ties in nearest centre / nearest crossable cell may go either way'],
    'budget_s': {'quick': 240, 'thorough': 1500},
}


def jobs(tier, seed):
    out = []
    for n in (2, 3, 5):
        out.append({'name': 'pixel-id-nearest-n%d' % n, 'kind': 'pix', 'n': n})
    out.append({'name': 'pixel-id-own-coordinate', 'kind': 'own', 'n': 5})
    out.append({'name': 'pixel-id-through-api', 'kind': 'pix-api', 'n': 4})

    def pairs(h, w):
        cs = cells((h, w))
        return [(s, g) for s in cs for g in cs]
    p33 = pairs(3, 3)
    if tier == 'quick':
        sel8 = pick(p33, 14, seed, always=[0, 8, 40, 80, 20])
        sel4 = pick(p33, 8, seed + 1, always=[8, 72])
    else:
        sel8 = sel4 = p33
    for conn, sel in ((8, sel8), (4, sel4)):
        for (s, g) in sel:
            out.append({'name': 'astar-3x3-c%d-%d%d-%d%d' % (conn, s[0], s[1], g[0], g[1]), 'kind': 'astar', 'shape': [3, 3], 'start': list(s), 'goal': list(g),
                        'conn': conn, 'snap': [False, False], 'barrier': False})
    # integer surfaces (the accumulated cost must stay floating point): crossability = "not a listed barrier value"
    for (s_, g_) in (((0, 0), (2, 2)), ((2, 0), (0, 2)), ((1, 0), (1, 2)), ((2, 2), (2, 0)), ((0, 1), (2, 1)), ((0, 2), (2, 0))):
        for dt in ('int32', 'uint8'):
            out.append({'name': 'astar-3x3-c8-%s-%d%d-%d%d' % (dt, s_[0], s_[1], g_[0], g_[1]), 'kind': 'astar', 'shape': [3, 3], 'start': list(s_), 'goal': list(g_),
                        'conn': 8, 'snap': [False, False], 'barrier': True, 'dtype': dt})
    for (s_, g_, snap) in (((1, 3), (0, 0), [True, False]), ((2, 0), (1, 3), [False, True]), ((2, 3), (0, 1), [True, True])):
        out.append({'name': 'astar-3x4-snap%d%d-%d%d-%d%d' % (snap[0], snap[1], s_[0], s_[1], g_[0], g_[1]), 'kind': 'astar', 'shape': [3, 4], 'start': list(s_), 'goal': list(g_),
                    'conn': 8, 'snap': snap, 'barrier': False})
    out.append({'name': 'astar-2x3-lat-lon-dims', 'kind': 'astar', 'shape': [2, 3], 'start': [1, 0], 'goal': [0, 2], 'conn': 8, 'snap': [False, True], 'barrier': False,
                'dims': ['lat', 'lon']})
    # two barrier values listed in descending order (the list is a set: its order must not matter)
    for (s_, g_) in (((0, 0), (1, 2)), ((1, 0), (0, 2)), ((0, 2), (0, 0))):
        out.append({'name': 'astar-2x3-two-barriers-unsorted-%d%d-%d%d' % (s_[0], s_[1], g_[0], g_[1]), 'kind': 'astar', 'shape': [2, 3], 'start': list(s_), 'goal': list(g_),
                    'conn': 8, 'snap': [False, False], 'barrier': [2, 0], 'dtype': 'int32', 'hi': 2})
    out.append({'name': 'astar-2x3-three-barriers-unsorted-float', 'kind': 'astar', 'shape': [2, 3], 'start': [1, 0], 'goal': [1, 2],
                'conn': 4, 'snap': [False, False], 'barrier': [4.0, 0.0, 2.0], 'domain': [0.0, 1.0, 2.0, 4.0]})
    # barriers + snapping on a smaller grid
    p23 = pairs(2, 3)
    selb = pick(p23, 6 if tier == 'quick' else len(p23), seed + 2, always=[5])
    for (s, g) in selb:
        out.append({'name': 'astar-2x3-barrier-%d%d-%d%d' % (s[0], s[1], g[0], g[1]), 'kind': 'astar', 'shape': [2, 3], 'start': list(s), 'goal': list(g),
                    'conn': 8, 'snap': [False, False], 'barrier': True})
    sels = pick(p23, 6 if tier == 'quick' else len(p23), seed + 3, always=[2])
    for (s, g) in sels:
        for snap in ([True, True], [True, False], [False, True]):
            out.append({'name': 'astar-2x3-snap%d%d-%d%d-%d%d' % (snap[0], snap[1], s[0], s[1], g[0], g[1]), 'kind': 'astar', 'shape': [2, 3], 'start': list(s),
                        'goal': list(g), 'conn': 8 if snap[0] else 4, 'snap': snap, 'barrier': False})
    if tier == 'quick':
        # 3x4, connectivity 8: the smallest grid on which a cell on the optimal route can first be reached through a costlier diagonal predecessor
        corner = [((2, 0), (0, 3)), ((0, 3), (2, 0)), ((0, 0), (2, 3)), ((2, 3), (0, 0))]
        for (s, g) in corner + pick([p for p in pairs(3, 4) if p not in corner], 4, seed + 4):
            out.append({'name': 'astar-3x4-c8-%d%d-%d%d' % (s[0], s[1], g[0], g[1]), 'kind': 'astar', 'shape': [3, 4], 'start': list(s), 'goal': list(g),
                        'conn': 8, 'snap': [False, False], 'barrier': False})
    if tier != 'quick':
        p24 = pairs(2, 4)
        for (s, g) in p24:
            out.append({'name': 'astar-2x4-c8-%d%d-%d%d' % (s[0], s[1], g[0], g[1]), 'kind': 'astar', 'shape': [2, 4], 'start': list(s), 'goal': list(g),
                        'conn': 8, 'snap': [False, False], 'barrier': False})
        p34 = pairs(3, 4)
        for (s, g) in pick(p34, 40, seed + 4, always=[11, 8 * 12 + 3, 3 * 12 + 8, 0 * 12 + 11, 11 * 12 + 0]):
            out.append({'name': 'astar-3x4-c8-%d%d-%d%d' % (s[0], s[1], g[0], g[1]), 'kind': 'astar', 'shape': [3, 4], 'start': list(s), 'goal': list(g),
                        'conn': 8, 'snap': [False, False], 'barrier': False})
    return out


def _dijkstra(cross, h, w, s, conn):
    INF = math.inf
    dist = {c: INF for c in cells((h, w))}
    if not cross[s]:
        return dist
    dist[s] = 0.0
    todo = set(dist)
    while todo:
        u = min(todo, key=lambda c: dist[c])
        todo.discard(u)
        if dist[u] == INF:
            break
        for dy in (-1, 0, 1):
            for dx in (-1, 0, 1):
                if (dy or dx) and (conn == 8 or dy == 0 or dx == 0):
                    v = (u[0] + dy, u[1] + dx)
                    if v in dist and cross[v]:
                        nd = dist[u] + math.hypot(dy, dx)
                        if nd < dist[v] - 1e-12:
                            dist[v] = nd
    return dist


def body(ctx, job):
    kind = job['kind']
    if kind in ('pix', 'own', 'pix-api'):
        return body_pix(ctx, job)
    h, w = job['shape']
    s = tuple(job['start'])
    g = tuple(job['goal'])
    conn = job['conn']
    dt = job.get('dtype', 'float64')
    data = ctx.array('d', (h, w), dt, nan=True, **({'lo': 0, 'hi': job.get('hi', 1)} if dt[0] in 'iu' else {}))
    if job.get('domain'):
        for v in data.flat_values():
            ctx.assume(Or(isnan(v), *[v == k for k in job['domain']]))
    ys = coords_affine(h, float(h - 1) * 2.0, -2.0)      # descending y, step 2
    xs = coords_affine(w, 10.0, 0.5)                     # ascending x, step 0.5
    dn = tuple(job.get('dims', ('y', 'x')))
    surf = raster(data, dims=dn, ys=ys, xs=xs, attrs={'res': (0.5, 2.0)}, name='surface')
    barriers = []
    if job['barrier']:
        if isinstance(job['barrier'], list):
            barriers = list(job['barrier'])
        else:
            barriers = [ctx.real('barrier')] if dt[0] not in 'iu' else [0]
    start = (float(ys[s[0]]), float(xs[s[1]]))
    goal = (float(ys[g[0]]), float(xs[g[1]]))
    res = ctx.call('pathfinding:a_star_search', surf, start, goal, barriers, dn[1], dn[0], conn, job['snap'][0], job['snap'][1])
    out = vals(res)
    ctx.observe('out', out)
    # crossability, decided per path (the reference forks exactly like a user inspecting the raster would)
    cross = {}
    for c in cells((h, w)):
        v = data[c]
        bad = bool(isnan(v))
        if not bad:
            for b in barriers:
                if bool(v == b):
                    bad = True
        cross[c] = not bad
    if (job['snap'][0] or job['snap'][1]) and not any(cross.values()):
        raise Skip()

    def snapped(c, on):
        if not on or cross[c]:
            return [c]
        best = min(math.hypot(c[0] - k[0], c[1] - k[1]) for k in cross if cross[k])
        return [k for k in cross if cross[k] and abs(math.hypot(c[0] - k[0], c[1] - k[1]) - best) < 1e-9]
    S = snapped(s, job['snap'][0])
    G = snapped(g, job['snap'][1])
    o = {c: out[c] for c in cells((h, w))}
    for c, v in o.items():
        if sc.is_sym(v):
            v = sc.as_const(v)
            if v is None:
                raise sc.ShimMissing("path cost is symbolic")
            o[c] = v
    path = sorted([c for c in o if not (o[c] != o[c])], key=lambda c: o[c])
    reachable = {}
    for s1 in S:
        d = _dijkstra(cross, h, w, s1, conn)
        for g1 in G:
            reachable[(s1, g1)] = d[g1]
    info = {'start': s, 'goal': g, 'cross': [int(cross[c]) for c in cells((h, w))], 'out': [o[c] for c in cells((h, w))]}
    # with snapping ties (several nearest crossable cells) the implementation may choose any of them: the result must be a
    # correct answer for at least one admissible (start', goal') pair
    if len(path) == 0:
        ctx.check('all-nan-only-when-no-route', any(v == math.inf for v in reachable.values()), info=info)
        return
    ok = path[0] in S and path[-1] in G and abs(o[path[0]]) < 1e-12 and reachable[(path[0], path[-1])] < math.inf
    ctx.check('route-exists-chain-from-start-to-goal', ok, info=info)
    if not ok:
        return
    chain_ok = all(cross[c] for c in path)
    for a, b in zip(path[:-1], path[1:]):
        dy, dx = abs(a[0] - b[0]), abs(a[1] - b[1])
        adj = max(dy, dx) == 1 and (conn == 8 or dy + dx == 1)
        chain_ok = chain_ok and adj and abs((o[b] - o[a]) - math.hypot(dy, dx)) < 1e-9
    ctx.check('chain-steps-valid', chain_ok, info=info)
    opt = reachable[(path[0], path[-1])]
    ctx.check('goal-cost-is-minimum', abs(o[path[-1]] - opt) < 1e-9, info=dict(info, optimum=opt))


def body_pix(ctx, job):
    n = job['n']
    kind = job['kind']
    c0 = ctx.real('c0', lo=-1000, hi=1000)
    step = ctx.real('step', lo=-100, hi=100)
    ctx.assume(Or(step >= 0.01, step <= -0.01))
    other = coords_affine(3, 7.0, 1.0)
    axis = coords_affine(n, c0, step)
    cs = abs(step)
    if kind == 'own':
        k = ctx.integer('k', 0, n - 1)
        p = c0 + k * step
    else:
        t = ctx.real('t', lo=-0.5, hi=n - 0.5)      # position in cell units relative to the first centre
        ctx.assume(And(t > -0.5, t < n - 0.5))
        p = c0 + t * step
    for which in ('x', 'y'):
        if which == 'x':
            r = raster(symnp.zeros((3, n)), ys=other, xs=axis)
            point = (7.0, p)
        else:
            r = raster(symnp.zeros((n, 3)), ys=axis, xs=other)
            point = (p, 7.0)
        if kind == 'pix-api':
            # through the public function: the start cell is the cell holding 0 in the result (goal = start)
            exc = ctx.raises(ctx.call, 'pathfinding:a_star_search', r, point, point)
            if exc is not None:
                ctx.check('point-inside-extent-accepted', False, info={'exception': exc, 'axis': which})
                continue
            out = vals(ctx.last)
            zero = [c for c in cells(out.shape) if not bool(isnan(out[c]))]
            ok = len(zero) == 1
            ctx.check('single-start-cell', ok)
            if not ok:
                continue
            idx = zero[0][1] if which == 'x' else zero[0][0]
            oth = zero[0][0] if which == 'x' else zero[0][1]
            ctx.check('other-axis', oth == 0)
        else:
            py, px = ctx.call('pathfinding:_get_pixel_id', point, r)
            idx = px if which == 'x' else py
            ctx.check('other-axis', (py if which == 'x' else px) == 0)
        ctx.observe('idx_' + which, idx)
        if kind == 'own':
            ctx.check('own-coordinate-denotes-own-cell', idx == k, info=lambda m, idx=idx: {'idx': ctx.ev(m, idx), 'k': ctx.ev(m, k)})
        else:
            # nearest centre (ties either way): | p - centre[idx] | <= cellsize / 2
            centre = c0 + idx * step
            ctx.check('nearest-centre', ctx.le(abs(p - centre), cs / 2, TOL64),
                      info=lambda m, idx=idx: {'idx': ctx.ev(m, idx), 't_in_cells': ctx.ev(m, t), 'c0': ctx.ev(m, c0), 'step': ctx.ev(m, step)})
