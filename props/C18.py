"""C18 trim and crop return the minimal window, cells and coordinates intact."""
import math

from sx import symnp, core as sc
from .common import raster, coords_affine, cells, And, Or, Not, Implies, ite, isnan, same, vals, Skip

ID = 'C18'
LEVEL = 'model_checking'
META = {
    'modules': ['zonal'],
    'functions': ['xrspatial.zonal.trim', 'xrspatial.zonal._trim', 'xrspatial.zonal.crop', 'xrspatial.zonal._crop'],
    'bounds': {'quick': 'rasters 1x4, 4x1, 2x3, 3x3 (every subset of the four borders touched); all cells symbolic (NaN allowed); exclusion lists: the default, '
                        '[e], [e1,e2], [nan,e] with symbolic entries; crop id lists [i], [i1,i2] symbolic',
               'thorough': 'plus 3x4, 4x3, 2x5 and integer dtype rasters'},
    'stubs': ['numba.jit = identity', 'xarray.DataArray = sx.symxr mini DataArray (slicing semantics mirrored)'],
    'outside': ['rasters where every cell is excluded (the property does not define the window)', 'rasters larger than the bound'],
    'assumptions': ['at least one kept cell'],
    'budget_s': {'quick': 150, 'thorough': 900},
}


def jobs(tier, seed):
    shapes = [(1, 4), (4, 1), (2, 3), (3, 3)]
    if tier != 'quick':
        shapes += [(3, 4), (4, 3), (2, 5)]
    out = []
    for shp in shapes:
        for mode in ('default', 'one', 'two', 'nan+one'):
            if tier == 'quick' and mode == 'two' and shp == (3, 3):
                continue      # 3119+ paths: thorough tier only
            out.append({'name': 'trim-%dx%d-%s' % (shp[0], shp[1], mode), 'fn': 'trim', 'shape': list(shp), 'mode': mode, 'dtype': 'float64'})
        for mode in ('one', 'two'):
            out.append({'name': 'crop-%dx%d-%s' % (shp[0], shp[1], mode), 'fn': 'crop', 'shape': list(shp), 'mode': mode, 'dtype': 'float64'})
    # integer rasters with exclusion values / zone ids the raster dtype cannot represent (fractional, out of range): they match no cell
    out.append({'name': 'trim-2x3-int32-fractional-exclude', 'fn': 'trim', 'shape': [2, 3], 'mode': 'one', 'dtype': 'int32', 'real_entries': True})
    out.append({'name': 'trim-2x2-uint8-out-of-range-exclude', 'fn': 'trim', 'shape': [2, 2], 'mode': 'one', 'dtype': 'uint8', 'real_entries': True, 'lo': 253, 'hi': 255, 'elo': -3, 'ehi': 258})
    out.append({'name': 'crop-2x3-int32-fractional-ids', 'fn': 'crop', 'shape': [2, 3], 'mode': 'one', 'dtype': 'int32', 'real_entries': True})
    if tier != 'quick':
        out.append({'name': 'trim-3x3-int', 'fn': 'trim', 'shape': [3, 3], 'mode': 'one', 'dtype': 'int32'})
        out.append({'name': 'crop-3x3-int', 'fn': 'crop', 'shape': [3, 3], 'mode': 'two', 'dtype': 'int32'})
    return out


def _with_band(r):
    from sx import symxr
    return symxr.DataArray(r.data, dims=r.dims, coords={'y': r.coords['y'].data, 'x': r.coords['x'].data, 'band': symnp.asarray(7)}, attrs=dict(r.attrs), name=r.name)


def body(ctx, job):
    h, w = job['shape']
    dt = job['dtype']
    isint = dt[0] in 'iu'
    data = ctx.array('d', (h, w), dt, nan=not isint, lo=job.get('lo', -5) if isint else None, hi=job.get('hi', 5) if isint else None)
    ys = coords_affine(h, 10.0 + h, -1.0)
    xs = coords_affine(w, 100.0, 2.0)
    attrs = {'res': (2.0, 1.0), 'units': 'km'}
    mode = job['mode']

    def sym_entry(name):
        if isint and job.get('real_entries'):
            return ctx.real(name, lo=job.get('elo', -6), hi=job.get('ehi', 6))
        return ctx.integer(name, -5, 5) if isint else ctx.real(name)

    nan_listed = False
    if mode == 'default':
        entries = []
        nan_listed = True
        call_values = None
    elif mode == 'one':
        entries = [sym_entry('e1')]
    elif mode == 'two':
        entries = [sym_entry('e1'), sym_entry('e2')]
    else:
        entries = [sym_entry('e1')]
        nan_listed = True
    if mode == 'nan+one':
        call_values = [math.nan] + entries
    elif mode != 'default':
        call_values = list(entries)

    if job['fn'] == 'trim':
        src = _with_band(raster(data, ys=ys, xs=xs, attrs=attrs, name='src'))
        if mode == 'default':
            res = ctx.call('zonal:trim', src)
        else:
            res = ctx.call('zonal:trim', src, call_values)

        def kept(v):
            ex = Or(*[v == e for e in entries]) if entries else False
            if nan_listed:
                ex = Or(ex, isnan(v))
            return Not(ex)
        ref_src = src
    else:
        zones = raster(data, ys=ys, xs=xs, attrs={'zone': 1}, name='zones')
        vdata = ctx.array('v', (h, w), 'float64', nan=True)
        values = _with_band(raster(vdata, ys=ys, xs=xs, attrs=attrs, name='values'))
        res = ctx.call('zonal:crop', zones, values, call_values)

        def kept(v):
            return Or(*[v == e for e in entries])
        ref_src = values

    K = [[kept(data[y, x]) for x in range(w)] for y in range(h)]
    rowk = [Or(*K[y]) for y in range(h)]
    colk = [Or(*[K[y][x] for y in range(h)]) for x in range(w)]
    ctx.assume(Or(*rowk))

    def first(flags):
        r = len(flags) - 1
        for i in range(len(flags) - 2, -1, -1):
            r = ite(flags[i], i, r)
        return r

    def last(flags):
        r = 0
        for i in range(1, len(flags)):
            r = ite(flags[i], i, r)
        return r
    top, bottom, left, right = first(rowk), last(rowk), first(colk), last(colk)

    out = vals(res)
    ctx.observe('shape', list(out.shape))
    ctx.observe('out', out)
    rh, rw = out.shape
    # locate the window through the (distinct, concrete) coordinates of the result
    ry = res.coords['y'].values.flat_values()
    rx = res.coords['x'].values.flat_values()
    ylist = [sc.as_const(v) if sc.is_sym(v) else float(v) for v in ys.flat_values()]
    xlist = [sc.as_const(v) if sc.is_sym(v) else float(v) for v in xs.flat_values()]
    ok_coords = rh >= 1 and rw >= 1 and all(float(v) in ylist for v in ry) and all(float(v) in xlist for v in rx)
    ctx.check('coords-from-original', ok_coords)
    if not ok_coords:
        return
    t0 = ylist.index(float(ry[0]))
    l0 = xlist.index(float(rx[0]))
    contiguous = all(ylist.index(float(v)) == t0 + i for i, v in enumerate(ry)) and all(xlist.index(float(v)) == l0 + j for j, v in enumerate(rx))
    ctx.check('contiguous-slice', contiguous)
    ctx.check('minimal-window', And(top == t0, bottom == t0 + rh - 1, left == l0, right == l0 + rw - 1),
              info=lambda m: {'got_window': [t0, t0 + rh - 1, l0, l0 + rw - 1],
                              'want_window': [ctx.ev(m, top), ctx.ev(m, bottom), ctx.ev(m, left), ctx.ev(m, right)]})
    srcv = vals(ref_src)
    for i in range(rh):
        for j in range(rw):
            if t0 + i < h and l0 + j < w:
                ctx.check('cells-intact', same(out[i, j], srcv[t0 + i, l0 + j]))
    ctx.check('attrs-dims', And(res.attrs == ref_src.attrs, tuple(res.dims) == tuple(ref_src.dims)))
    # a scalar (non-dimension) coordinate of the original belongs to the window as well
    band = res.coords['band'].values.flat_values() if 'band' in res.coords else None
    ctx.check('scalar-coordinate-kept', sorted(res.coords) == sorted(ref_src.coords) and band is not None and [float(v) for v in band] == [7.0],
              info={'coords': sorted(res.coords), 'want': sorted(ref_src.coords)})
