"""C03 Zonal tables do not depend on how Dask rasters are chunked."""
import math

from sx import symnp, symda, core as sc
from sx.harness import TOL64, isfinite
from .common import raster, coords_affine, cells, And, Or, Not, Implies, ite, isnan, same, vals, Skip, Sum, compositions

ID = 'C03'
LEVEL = 'model_checking'
META = {
    'modules': ['zonal', 'utils'],
    'functions': ['xrspatial.zonal.stats', 'xrspatial.zonal._stats_dask_numpy', 'xrspatial.zonal._single_stats_func', 'xrspatial.zonal._DASK_BLOCK_STATS / _DASK_STATS',
                  'xrspatial.zonal._dask_mean / _dask_std / _dask_var', 'xrspatial.zonal.crosstab', 'xrspatial.zonal._crosstab_dask_numpy', 'xrspatial.zonal._single_chunk_crosstab',
                  'xrspatial.zonal._crosstab_df_dask', 'xrspatial.zonal._select_ids', 'xrspatial.utils.validate_arrays'],
    'bounds': {'quick': 'zones / values rasters of 3 cells (1x3) and 4 cells (2x2): every chunk grid of the zones raster (4) x a different chunking of the values raster; zone ids symbolic (NaN allowed), '
                        'values symbolic (NaN allowed), nodata symbolic; statistics count, min, max, sum, mean (std / var on NaN-free 1x3); zone_ids selections; crosstab count / percentage with '
                        'zone_ids and cat_ids selections; integer zones / values on 1x3 with uneven chunks',
               'thorough': '1x4 and 2x3 rasters with every chunk grid'},
    'stubs': ['dask.array / dask.delayed / dask.dataframe = sx.symda + sx.minipd contract shims (to_delayed per block, delayed calls, from_delayed, stack, concat, DataFrame column / row selection); '
              'validated by replaying sampled path models on real dask'],
    'outside': ['dask schedulers', 'more than 4 cells', 'float rounding of the block-wise sum / variance formulas (compared as exact reals)'],
    'assumptions': ['at least one requested zone exists (domain of the property)'],
    'budget_s': {'quick': 300, 'thorough': 2400},
}


def jobs(tier, seed):
    out = []
    shapes = [(1, 3), (2, 2)] if tier == 'quick' else [(1, 3), (2, 2), (1, 4), (2, 3)]
    for shp in shapes:
        grids = [(a, b) for a in compositions(shp[0]) for b in compositions(shp[1])]
        for gi, g in enumerate(grids):
            g2 = grids[(gi + 1) % len(grids)]
            base = {'shape': list(shp), 'zchunks': [list(g[0]), list(g[1])], 'vchunks': [list(g2[0]), list(g2[1])]}
            small = shp == (1, 3)
            if small or tier != 'quick' or gi in (1, 3):
                out.append(dict(base, name='stats-%dx%d-g%d-count-min-max' % (shp[0], shp[1], gi), fn='stats', stats=['count', 'min', 'max'], sel='none'))
            if small or tier != 'quick':
                out.append(dict(base, name='stats-%dx%d-g%d-sum-mean' % (shp[0], shp[1], gi), fn='stats', stats=['sum', 'mean'], sel='none'))
                out.append(dict(base, name='stats-%dx%d-g%d-std-var' % (shp[0], shp[1], gi), fn='stats', stats=['std', 'var'], sel='none', nonan=True))
                out.append(dict(base, name='stats-%dx%d-g%d-zone_ids' % (shp[0], shp[1], gi), fn='stats', stats=['count', 'max'], sel='two'))
                out.append(dict(base, name='crosstab-%dx%d-g%d-count' % (shp[0], shp[1], gi), fn='crosstab', agg='count', sel='none'))
            # the two-id crosstab selections are the expensive ones (thousands of paths each): two grids at the quick tier
            if (small and gi in (1, 2)) or tier != 'quick':
                out.append(dict(base, name='crosstab-%dx%d-g%d-percentage-zone_ids' % (shp[0], shp[1], gi), fn='crosstab', agg='percentage', sel='zone2', shape=[1, 2] if tier == 'quick' else list(shp),
                                zchunks=[[1], [1, 1]] if tier == 'quick' else base['zchunks'], vchunks=[[1], [2]] if tier == 'quick' and gi == 1 else ([[1], [1, 1]] if tier == 'quick' else base['vchunks'])))
                out.append(dict(base, name='crosstab-%dx%d-g%d-cat_ids' % (shp[0], shp[1], gi), fn='crosstab', agg='count', sel='cat2', shape=[1, 2] if tier == 'quick' else list(shp),
                                zchunks=[[1], [1, 1]] if tier == 'quick' else base['zchunks'], vchunks=[[1], [2]] if tier == 'quick' and gi == 1 else ([[1], [1, 1]] if tier == 'quick' else base['vchunks'])))
    # percentage of the zone's valid cells when only one category is requested (the omitted categories still count in the denominator)
    out.append({'shape': [1, 3], 'zchunks': [[1], [1, 2]], 'vchunks': [[1], [3]], 'name': 'crosstab-1x3-percentage-cat1', 'fn': 'crosstab', 'agg': 'percentage', 'sel': 'cat1'})
    # integer zones / integer values (1x3, uneven chunks)
    b13 = {'shape': [1, 3], 'zchunks': [[1], [1, 2]], 'vchunks': [[1], [2, 1]]}
    out.append(dict(b13, name='stats-1x3-int-zones-count-min-max', fn='stats', stats=['count', 'min', 'max'], sel='none', zdtype='int32'))
    out.append(dict(b13, name='stats-1x3-int-zones-int-values-sum-mean', fn='stats', stats=['sum', 'mean'], sel='none', zdtype='int64', vdtype='int32'))
    out.append(dict(b13, name='crosstab-1x3-int-zones-int-values-count', fn='crosstab', agg='count', sel='none', zdtype='uint8', vdtype='int32'))
    return out


def _table(df):
    cols = list(df.columns)
    return cols, {c: list(df[c].vals) for c in cols}


def _find_col(cols, key):
    for c in cols:
        if c is key:
            return c
    for c in cols:
        if isinstance(c, str) or isinstance(key, str):
            if isinstance(c, str) and isinstance(key, str) and c == key:
                return c
            continue
        if bool(c == key):
            return c
    return None


def body(ctx, job):
    sc.set_axioms(sqrt_exact=True, congruence='syntactic')
    h, w = job['shape']
    nonan = bool(job.get('nonan'))
    zdt, vdt = job.get('zdtype', 'float64'), job.get('vdtype', 'float64')
    zones_d = ctx.array('z', (h, w), zdt, nan=not nonan, **({'lo': 0 if zdt[0] == 'u' else -2, 'hi': 3} if zdt[0] in 'iu' else {}))
    vals_d = ctx.array('v', (h, w), vdt, nan=not nonan, **({'lo': -3, 'hi': 3} if vdt[0] in 'iu' else {}))
    nodata = None if nonan else ctx.real('nodata')
    ys = coords_affine(h, float(h), -1.0)
    xs = coords_affine(w, 0.0, 1.0)

    def mk(data, name, ch=None):
        return raster(data.copy(), ys=ys, xs=xs, name=name, chunks=ch)
    sel = job['sel']
    zone_ids = cat_ids = None
    if sel in ('two', 'zone2'):
        zone_ids = [ctx.real('zid1'), ctx.real('zid2')]
        ctx.assume(zone_ids[0] != zone_ids[1])
        # domain of the property: at least one requested zone exists
        zl = zones_d.flat_values()
        ctx.assume(Or(*[And(isfinite(z), Or(z == zone_ids[0], z == zone_ids[1])) for z in zl]))
    if sel == 'cat2':
        cat_ids = [ctx.real('cid1'), ctx.real('cid2')]
        ctx.assume(cat_ids[0] != cat_ids[1])
    if sel == 'cat1':
        cat_ids = [ctx.real('cid1')]
    if job['fn'] == 'stats':
        kw = dict(stats_funcs=list(job['stats']), nodata_values=nodata)
        ref = ctx.call('zonal:stats', mk(zones_d, 'zones'), mk(vals_d, 'values'), zone_ids, **kw)
        exc = ctx.raises(ctx.call, 'zonal:stats', mk(zones_d, 'zones', job['zchunks']), mk(vals_d, 'values', job['vchunks']), zone_ids, **kw)
    else:
        kw = dict(agg=job['agg'], nodata_values=nodata)
        ref = ctx.call('zonal:crosstab', mk(zones_d, 'zones'), mk(vals_d, 'values'), zone_ids, cat_ids, **kw)
        exc = ctx.raises(ctx.call, 'zonal:crosstab', mk(zones_d, 'zones', job['zchunks']), mk(vals_d, 'values', job['vchunks']), zone_ids, cat_ids, **kw)
    res = ctx.last
    if exc is None and hasattr(res, 'compute'):
        exc = ctx.raises(res.compute)
        res = ctx.last
    ctx.check('dask-backed-call-and-compute-succeed', exc is None, info={'exception': exc, 'zchunks': job['zchunks'], 'vchunks': job['vchunks']})
    if exc is not None:
        return
    rcols, rt = _table(ref)
    dcols, dt = _table(res)
    ctx.observe('dask_table', [dt[c] for c in dcols])
    nrows = len(rt['zone'])
    ok = len(dt.get('zone', [])) == nrows and len(dcols) == len(rcols)
    ctx.check('same-rows-and-columns', ok, info={'numpy_columns': [str(c)[:20] for c in rcols], 'dask_columns': [str(c)[:20] for c in dcols], 'numpy_rows': nrows,
                                                 'dask_rows': len(dt.get('zone', []))})
    if not ok:
        return
    # rows are compared by zone label (the two backends may order columns differently, never rows: both ascend)
    for i in range(nrows):
        ctx.check('zone-ids-equal', same(dt['zone'][i], rt['zone'][i]), info=lambda m, i=i: {'row': i, 'dask': ctx.ev(m, dt['zone'][i]), 'numpy': ctx.ev(m, rt['zone'][i])})
    for c in rcols:
        if isinstance(c, str) and c == 'zone':
            continue
        dc = _find_col(dcols, c)
        ctx.check('column-present-in-dask-table', dc is not None, info={'column': str(c)})
        if dc is None:
            continue
        exact = isinstance(c, str) and c in ('count', 'min', 'max') or (job['fn'] == 'crosstab' and job['agg'] == 'count')
        for i in range(nrows):
            a, b = dt[dc][i], rt[c][i]
            ctx.check('entries-equal', same(a, b) if exact else ctx.close(a, b, TOL64),
                      info=lambda m, i=i, c=c, a=a, b=b: {'column': str(c)[:30], 'row': i, 'dask': ctx.ev(m, a), 'numpy': ctx.ev(m, b), 'zones': [ctx.ev(m, z) for z in zones_d.flat_values()],
                                                          'values': [ctx.ev(m, v) for v in vals_d.flat_values()], 'nodata': ctx.ev(m, nodata) if nodata is not None else None,
                                                          'zchunks': job['zchunks'], 'vchunks': job['vchunks']})
