"""C06 Proximity, allocation, direction name one real target, never underestimated."""
import math

import numpy as _np

from sx import symnp, core as sc
from .common import raster, coords_affine, cells, And, Or, Not, Implies, ite, isnan, same, vals, Skip, Sum
from sx.harness import isfinite, TOL32

ID = 'C06'
LEVEL = 'model_checking'
META = {
    'modules': ['proximity', 'utils'],
    'functions': ['xrspatial.proximity.proximity', 'xrspatial.proximity.allocation', 'xrspatial.proximity.direction', 'xrspatial.proximity._process',
                  'xrspatial.proximity._process_proximity_line', 'xrspatial.proximity._calc_direction', 'xrspatial.proximity._distance'],
    'bounds': {'quick': 'rasters 3x3 (every one of the 2^9 target layouts, as solver-decided paths over symbolic cell values incl. NaN) for EUCLIDEAN (ascending and descending, '
                        'non-square coordinates) and MANHATTAN, finite and infinite max_distance, max_distance 0 (float and int); 2x3 for GREAT_CIRCLE and for explicit symbolic target_values; int32 / uint8 rasters 2x3; NOT symbolic: 5x6 rasters with two concrete targets at every pair of positions (435 layouts; claims: never below the true nearest distance, value = distance to the target that allocation and direction name)',
               'thorough': 'plus 3x4 and 2x5 (4096 / 1024 layouts) and 4x4 single-target layouts'},
    'stubs': ['numba.jit = identity; the closure _process_numpy is re-created per call exactly as in production'],
    'outside': ['grids larger than the bound (where the 4-sweep heuristic is known to be inexact; there only "never underestimated, names a real target" is the property)',
                'float32 rounding of raster values copied into float32 scan lines / outputs (allocation is compared with 1e-4 relative tolerance)'],
    'assumptions': ['coordinates concrete (several grids); cell values symbolic'],
    'replay_samples': {'quick': 4, 'thorough': 12},   # every replayed call re-JITs the proximity closure in the real build (~5 s)
    'budget_s': {'quick': 300, 'thorough': 1800},
}

GRIDS = {
    'asc': dict(y0=0.0, dy=1.0, x0=0.0, dx=1.0),
    'desc-nonsquare': dict(y0=10.0, dy=-2.0, x0=5.0, dx=0.5),
    'lonlat': dict(y0=40.0, dy=-0.5, x0=-74.0, dx=0.75),
}


def jobs(tier, seed):
    out = []

    def add(name, **kw):
        j = dict(name=name, shape=[3, 3], grid='asc', metric='EUCLIDEAN', maxd=None, targets='default')
        j.update(kw)
        out.append(j)
    add('euclid-3x3-inf')
    add('euclid-3x3-desc-nonsquare-inf', grid='desc-nonsquare')
    add('euclid-3x3-maxd1.5', maxd=1.5)
    add('euclid-3x3-desc-nonsquare-maxd1.1', grid='desc-nonsquare', maxd=1.1)
    # max_distance exactly 0 (a legal bound, not "unbounded"): 0 on targets, NaN everywhere else
    add('euclid-2x3-maxd0', shape=[2, 3], maxd=0.0)
    add('manhattan-2x3-maxd0-int', shape=[2, 3], maxd=0, metric='MANHATTAN', grid='desc-nonsquare')
    add('manhattan-3x3-inf', metric='MANHATTAN')
    add('manhattan-3x3-maxd2', metric='MANHATTAN', maxd=2.0)
    add('greatcircle-2x3-inf', metric='GREAT_CIRCLE', grid='lonlat', shape=[2, 3])
    add('target-values-2x3', shape=[2, 3], targets='values')
    add('target-values-2x3-maxd', shape=[2, 3], targets='values', maxd=1.0, grid='desc-nonsquare')
    add('target-values-1x3-float32-stores', shape=[1, 3], targets='values', f32=True)
    add('euclid-2x3-int32', shape=[2, 3], dtype='int32')
    add('target-values-2x3-uint8-maxd', shape=[2, 3], targets='values', maxd=1.5, dtype='uint8')
    # 5x6 with two targets at every pair of positions (435 layouts, 5 per job, alternating square ascending and non-square descending coordinates): two concrete distinct target values, everything else 0
    allc = [(y, x) for y in range(5) for x in range(6)]
    pairs56 = [(a, b) for i, a in enumerate(allc) for b in allc[:i]]
    for i in range(0, len(pairs56), 5):
        add('two-targets-5x6-%02d' % (i // 5), shape=[5, 6], grid='asc' if (i // 5) % 2 else 'desc-nonsquare', exact=False, pairs=[[list(a), list(b)] for a, b in pairs56[i:i + 5]])
    # dimension names other than y / x (the x= / y= arguments must be honoured)
    add('euclid-2x3-lat-lon-dims', shape=[2, 3], grid='desc-nonsquare', dims=['lat', 'lon'], maxd=1.1)
    add('single-row-1x4', shape=[1, 4])
    add('single-col-4x1', shape=[4, 1])
    if tier != 'quick':
        add('euclid-3x4-inf', shape=[3, 4])
        add('euclid-2x5-maxd2.5', shape=[2, 5], maxd=2.5)
        add('manhattan-3x4-desc', shape=[3, 4], metric='MANHATTAN', grid='desc-nonsquare')
    return out


def _gc(x1, x2, y1, y2):
    lat1, lon1, lat2, lon2 = map(math.radians, (y1, x1, y2, x2))
    a = math.sin((lat2 - lat1) / 2.0) ** 2 + math.cos(lat1) * math.cos(lat2) * math.sin((lon2 - lon1) / 2.0) ** 2
    return 6378137 * 2 * math.asin(math.sqrt(a))


def _dist(metric, x1, x2, y1, y2):
    if metric == 'EUCLIDEAN':
        return math.hypot(x1 - x2, y1 - y2)
    if metric == 'MANHATTAN':
        return abs(x1 - x2) + abs(y1 - y2)
    return _gc(x1, x2, y1, y2)


def _bearing(xc, yc, xt, yt):
    """documented compass convention (y grows southwards, as rows do): 90 E, 180 S, 270 W, 360 N, 0 = the cell itself"""
    if xc == xt and yc == yt:
        return 0.0
    b = math.degrees(math.atan2(xt - xc, -(yt - yc))) % 360.0
    return 360.0 if b == 0 else b


def _num(v):
    if sc.is_sym(v):
        c = sc.as_const(v)
        if c is None:
            raise sc.ShimMissing("symbolic proximity value")
        return c
    return float(v)


def body(ctx, job):
    sc.set_axioms(f32_store_round=bool(job.get('f32')))
    h, w = job['shape']
    g = GRIDS[job['grid']]
    ysl = [g['y0'] + i * g['dy'] for i in range(h)]
    xsl = [g['x0'] + j * g['dx'] for j in range(w)]
    ys = symnp.asarray(ysl, 'float64')
    xs = symnp.asarray(xsl, 'float64')
    dt = job.get('dtype', 'float64')
    if job.get('pairs'):
        # concrete, distinct target values: these jobs enumerate layouts (which of two far-apart targets wins which cell), nothing is symbolic
        v1, v2 = 3.0, 7.0
        for a, b in job['pairs']:
            data = symnp.zeros((h, w), 'float64')
            data[tuple(a)] = v1
            data[tuple(b)] = v2
            _run(ctx, job, data, ys, xs, ysl, xsl, g, h, w)
        return
    data = ctx.array('d', (h, w), dt, nan=True, **({'lo': 0 if dt[0] == 'u' else -1, 'hi': 2} if dt[0] in 'iu' else {}))
    _run(ctx, job, data, ys, xs, ysl, xsl, g, h, w)


def _run(ctx, job, data, ys, xs, ysl, xsl, g, h, w):
    dn = tuple(job.get('dims', ('y', 'x')))
    agg = raster(data, dims=dn, ys=ys, xs=xs, name='r', attrs={'res': (abs(g['dx']), abs(g['dy']))})
    maxd = job['maxd']
    metric = job['metric']
    kw = dict(distance_metric=metric)
    if maxd is not None:
        kw['max_distance'] = maxd
    tv = None
    if job['targets'] == 'values':
        if job.get('f32'):
            # a target value that float32 represents exactly (quarter-integers), so that a counterexample of the rounding model replays
            tv = ctx.integer('target_value_quarters', -64, 64) / 4.0
        else:
            tv = ctx.real('target_value')
        kw['target_values'] = [tv]
    prox = vals(ctx.call('proximity:proximity', agg, dn[1], dn[0], **kw))
    alloc = vals(ctx.call('proximity:allocation', agg, dn[1], dn[0], **kw))
    direc = vals(ctx.call('proximity:direction', agg, dn[1], dn[0], **kw))
    ctx.observe('proximity', prox)
    ctx.observe('direction', direc)
    cs = cells((h, w))
    # target layout of this path
    is_t = {}
    for c in cs:
        v = data[c]
        cond = (v == tv) if tv is not None else And(v != 0, isfinite(v))
        is_t[c] = bool(cond)
    T = [c for c in cs if is_t[c]]
    lim = math.inf if maxd is None else maxd
    info = {'targets': [list(t) for t in T], 'prox': [_num(prox[c]) for c in cs], 'dir': [_num(direc[c]) for c in cs]}
    for c in cs:
        p = _num(prox[c])
        dv = _num(direc[c])
        dists = {t: _dist(metric, xsl[c[1]], xsl[t[1]], ysl[c[0]], ysl[t[0]]) for t in T}
        within = {t: d for t, d in dists.items() if d <= lim * (1 + 1e-6)}
        strictly = {t: d for t, d in dists.items() if d <= lim * (1 - 1e-6)}
        a = alloc[c]
        if not within:
            ctx.check('no-target-in-range-all-three-nan', And(p != p, dv != dv, isnan(a)), info=dict(info, cell=list(c)))
            continue
        if not strictly and p != p:
            continue    # target exactly at max_distance: tie outside the claim
        nearest = min(within.values())
        tol = 1e-5 * (1 + nearest)
        if job.get('exact', True):
            ok = (p == p) and abs(p - nearest) <= tol
            ctx.check('proximity-is-exact-nearest-distance', ok, info=dict(info, cell=list(c), got=p, want=nearest))
        else:
            # beyond the exhaustively enumerated small grids the four-sweep propagation may settle on a farther target: the property then only
            # demands "never below the true nearest distance" and that the value is the distance to the target the other two outputs name
            ok = (p == p) and p >= nearest - tol
            ctx.check('proximity-never-below-nearest-distance', ok, info=dict(info, cell=list(c), got=p, nearest=nearest))
        ctx.check('proximity-zero-iff-target', (p == 0) == is_t[c], info=dict(info, cell=list(c)))
        ctx.check('proximity-at-most-max-distance', p != p or p <= lim * (1 + 1e-6))
        if not ok:
            continue
        # the reported target: some target at the reported distance whose value and bearing the other two outputs carry
        cands = [t for t, d in within.items() if abs(d - p) <= tol]
        wit = False
        for t in cands:
            want_dir = _bearing(xsl[c[1]], ysl[c[0]], xsl[t[1]], ysl[t[0]])
            if dv == dv and abs(dv - want_dir) <= 1e-3:
                wit = Or(wit, ctx.close(a, data[t], TOL32))
        ctx.check('allocation-and-direction-name-a-target-at-that-distance', wit,
                  info=lambda m, c=c, cands=cands, a=a: dict(info, cell=list(c), candidates=[list(t) for t in cands], allocation=ctx.ev(m, a), direction=dv))
    if T and maxd is None:
        ctx.check('no-nan-with-a-target-and-unbounded-distance', all(_num(prox[c]) == _num(prox[c]) for c in cs), info=info)
