"""C05 Viewshed marks a cell visible exactly when the line-of-sight model says so."""
import itertools
import math

import z3

from sx import symnp, symxr, core as sc
from sx.core import SF
from sx.harness import TOL64
from .common import raster, coords_affine, cells, And, Or, Not, Implies, ite, isnan, same, vals, Skip, pick

ID = 'C05'
LEVEL = 'model_checking'
EPS = 1e-9
META = {
    'modules': ['viewshed'],
    'functions': ['xrspatial.viewshed.viewshed', '_viewshed_cpu', '_viewshed_cpu_sweep', '_init_event_list', '_calc_event_pos', '_calculate_angle', '_calc_event_elev',
                  '_calculate_event_row_col', '_calc_event_grad', '_calc_dist_n_grad', '_get_vertical_ang', '_insert_into_tree', '_delete_from_tree', '_max_grad_in_status_struct',
                  '_find_max_value_within_key', '_left_rotate', '_right_rotate', '_rb_insert_fixup', '_rb_delete_fixup'],
    'bounds': {'quick': 'whole function: 2x2 rasters with every observer cell, symbolic elevations / observer_elev / target_elev (>= 0), non-square cells, exhaustive; whole function on 2x3 / 3x2 / 3x3 over a fixed terrain with one symbolic cell at every position for every observer, and two symbolic cells for 24 seeded (occluder, occluded) pairs of 2x3 / 3x2 (concrete observer / target offsets), exhaustive; '
                        'event generation: 3x3 and 2x4 rasters, every observer cell, symbolic elevations; status structure: 5 keys, every insert/delete history of <= 2 operations and a seeded set of '
                        'longer histories (<= 6 operations, deletions of two-children nodes included), symbolic gradients, query = brute force over the active nearer nodes',
               'thorough': 'sparse whole-function jobs for every observer / cell and every occluding pair of 2x3, 3x2, 3x3 and 2x4; status structure every history of <= 3 operations over 5 keys, 400 longer histories, 600 deep trees'},
    'stubs': ['numba.jit = identity', 'atan Ackermannised (range, sign, strictly increasing, odd)'],
    'outside': ['single-row / single-column rasters (the function derives the cell size from the coordinate span and divides by zero there)', 'fully symbolic whole-function runs beyond 2x2 (z3 unknown on 2x3 / 3x2; there the claim is the sparse whole-function jobs plus the event-generation and status-structure harnesses)',
                'exact ties: bearings / gradients closer than 1e-9 to a span end or to the query gradient', 'NaN elevations', 'GPU (RTX) path', 'float rounding of gradients'],
    'assumptions': ['gradients are atan values, i.e. in (-pi/2, pi/2) (status-structure harness)', 'elevations finite'],
    'budget_s': {'quick': 420, 'thorough': 2400},
}

KEYS = [1.0, 2.0, 4.0, 5.0, 8.0]
KEYS8 = [1.0, 2.0, 3.0, 4.0, 5.0, 6.0, 7.0, 8.0, 9.0]
ANG = {k: (0.125, 0.25 + i / 64.0, 0.5) for i, k in enumerate(KEYS8)}
QANG = 0.3125


def _histories(L, keys):
    out = []

    def rec(active, hist):
        if hist:
            out.append(list(hist))
        if len(hist) == L:
            return
        for k in keys:
            if k in active:
                rec(active - {k}, hist + [('del', k)])
            else:
                rec(active | {k}, hist + [('ins', k)])
    rec(frozenset(), [])
    return out


def jobs(tier, seed):
    out = []
    # fully symbolic whole-function runs stop at 2x2: on 2x3 / 3x2 z3 answers unknown on path feasibility (measured: 3 of 12 jobs), which would make the
    # run inconclusive; larger rasters are covered by the sparse jobs below
    for shp in [[2, 2]]:
        for obs in cells(tuple(shp)):
            out.append({'name': 'viewshed-%dx%d-obs%d%d' % (shp[0], shp[1], obs[0], obs[1]), 'kind': 'whole', 'shape': shp, 'obs': list(obs)})
    # larger rasters, fixed terrain with one or two symbolic cells.  Pairs are restricted to (nearer cell whose angular span contains the farther cell's bearing, farther cell):
    # only those can change each other's visibility
    single, pairs = [], []
    for shp in ([2, 3], [3, 2], [3, 3], [2, 4]):
        for obs in cells(tuple(shp)):
            others = [c for c in cells(tuple(shp)) if c != obs]
            for c in others:
                single.append({'name': 'viewshed-sparse-%dx%d-obs%d%d-%d%d' % (shp[0], shp[1], obs[0], obs[1], c[0], c[1]), 'kind': 'whole-sparse', 'shape': shp, 'obs': list(obs),
                               'sym': [list(c)], 'target_elev': 0.5 if (c[0] + c[1]) % 2 else 0.0})
            for a, b in itertools.permutations(others, 2):
                if _occludes(a, b, obs):
                    pairs.append({'name': 'viewshed-sparse-%dx%d-obs%d%d-%d%d_%d%d' % (shp[0], shp[1], obs[0], obs[1], a[0], a[1], b[0], b[1]), 'kind': 'whole-sparse', 'shape': shp,
                                  'obs': list(obs), 'sym': [list(a), list(b)]})
    if tier == 'quick':
        out += [j for j in single if j['shape'] != [2, 4]]
        out += pick([j for j in pairs if j['shape'] in ([2, 3], [3, 2])], 24, seed + 5)
    else:
        out += single + pairs
    for shp in ([3, 3], [2, 4]):
        for obs in cells(tuple(shp)):
            out.append({'name': 'events-%dx%d-obs%d%d' % (shp[0], shp[1], obs[0], obs[1]), 'kind': 'events', 'shape': shp, 'obs': list(obs)})
    out.append({'name': 'vertical-angle', 'kind': 'vertical-angle'})
    hs = _histories(2 if tier == 'quick' else 3, KEYS)
    for i, hsty in enumerate(hs):
        out.append({'name': 'tree-h%d' % i, 'kind': 'tree', 'history': [[op, k] for op, k in hsty]})
    # longer histories: build up 4-5 nodes, then delete interior (two-children) nodes, then query
    import random
    rnd = random.Random(seed + 17)
    longer = []
    for perm in itertools.permutations(KEYS, 4):
        for dk in perm:
            longer.append([['ins', k] for k in perm] + [['del', dk]])
    for perm in itertools.permutations(KEYS, 5):
        for dk in perm[:3]:
            longer.append([['ins', k] for k in perm] + [['del', dk]])
    rnd.shuffle(longer)
    for i, hsty in enumerate(longer[:60 if tier == 'quick' else 400]):
        out.append({'name': 'tree-long%d' % i, 'kind': 'tree', 'history': hsty})
    # deeper trees (7-9 nodes: interior nodes with two children below the root), then one or two deletions
    for i in range(90 if tier == 'quick' else 600):
        ks = list(KEYS8)
        rnd.shuffle(ks)
        ks = ks[:rnd.choice((7, 8, 9))]
        dels = rnd.sample(ks, rnd.choice((1, 2)))
        out.append({'name': 'tree-deep%d' % i, 'kind': 'tree', 'history': [['ins', k] for k in ks] + [['del', k] for k in dels], 'keys': 'KEYS8'})
    return out


# ----------------------------------------------------------------- reference geometry of the documented model
def _bearing(er, ec, vr, vc):
    """angle of the ray observer -> (er, ec), counter-clockwise from east with north = decreasing row, in [0, 2pi)"""
    a = math.atan2(-(er - vr), ec - vc)
    return a % (2 * math.pi)


def _unwrap(a, centre):
    d = a - centre
    while d > math.pi:
        d -= 2 * math.pi
    while d <= -math.pi:
        d += 2 * math.pi
    return d


def _cell_geometry(r, c, vr, vc):
    """-> (centre angle, [(unwrapped offset, corner row, corner col, sr, sc)] for enter and exit corners)"""
    ca = _bearing(r, c, vr, vc)
    corners = []
    for sr in (-1, 1):
        for sc_ in (-1, 1):
            cr, cc = r + 0.5 * sr, c + 0.5 * sc_
            corners.append((_unwrap(_bearing(cr, cc, vr, vc), ca), cr, cc, sr, sc_))
    enter = min(corners)
    exit_ = max(corners)
    return ca, enter, exit_


def _occludes(a, b, obs, ew=1.0, ns=2.0):
    vr, vc = obs
    ca, en, ex = _cell_geometry(a[0], a[1], vr, vc)
    cb = _bearing(b[0], b[1], vr, vc)
    da = ((a[1] - vc) * ew) ** 2 + ((a[0] - vr) * ns) ** 2
    db = ((b[1] - vc) * ew) ** 2 + ((b[0] - vr) * ns) ** 2
    return da < db - 1e-12 and en[0] - EPS <= _unwrap(cb, ca) <= ex[0] + EPS


def body(ctx, job):
    kind = job['kind']
    if kind == 'tree':
        return body_tree(ctx, job)
    if kind == 'vertical-angle':
        return body_vertical(ctx, job)
    # the vertical angle divides by the symbolic elevation difference; its formula is checked by the vertical-angle jobs, so the
    # quotient is left unconstrained here (keeps every query of the sweep linear)
    sc.set_axioms(atan_mono=True, div_axiom=(kind not in ('whole', 'whole-sparse')))
    h, w = job['shape']
    vr, vc = job['obs']
    if kind == 'whole-sparse':
        # only the listed cells are symbolic, the rest of the terrain is a fixed gentle pattern: keeps the number of gradient orderings small on larger rasters
        elev = symnp.asarray([[float(((y * 2 + x) % 3) - 1) for x in range(w)] for y in range(h)], 'float64').copy()
        for (r, c) in job['sym']:
            elev[r, c] = ctx.real('e_%d_%d' % (r, c), lo=-50, hi=50)
    else:
        elev = ctx.array('e', (h, w), 'float64', nan=False, lo=-50, hi=50)
    ew, ns = 1.0, 2.0
    xs = coords_affine(w, 10.0, ew)
    ys = coords_affine(h, 20.0 + 2.0 * (h - 1), -ns)
    if kind == 'events':
        return body_events(ctx, job, elev)
    if kind == 'whole-sparse':
        # concrete observer / target offsets: only gradients that involve a symbolic cell are atan applications
        obs_elev, tgt = job.get('observer_elev', 1.5), job.get('target_elev', 0.0)
    else:
        obs_elev = ctx.real('observer_elev', lo=-5, hi=5)
        tgt = ctx.real('target_elev', lo=0, hi=5)
    agg = raster(elev, ys=ys, xs=xs, name='dem', attrs={'res': (ew, ns)})
    x0 = float(xs[vc])
    y0 = float(ys[vr])
    res = ctx.call('viewshed:viewshed', agg, x0, y0, obs_elev, tgt)
    out = vals(res)
    ctx.observe('out', out)
    vp = elev[vr, vc] + obs_elev
    tval = ite(tgt > 0, tgt, 0.0)
    ctx.check('observer-cell-is-180', out[vr, vc] == 180)
    cs = [c for c in cells((h, w)) if c != (vr, vc)]
    geo = {}
    for (r, c) in cs:
        ca, enter, exit_ = _cell_geometry(r, c, vr, vc)
        d2 = ((c - vc) * ew) ** 2 + ((r - vr) * ns) ** 2

        def corner_elev(cr, cc, sr, sc_):
            nr, nc = r + sr, c + sc_
            if 0 <= nr < h and 0 <= nc < w:
                return (elev[r, c] + elev[nr, c] + elev[r, nc] + elev[nr, nc]) / 4.0
            return elev[r, c]

        def grad(e, pr, pc):
            dd = math.sqrt(((pc - vc) * ew) ** 2 + ((pr - vr) * ns) ** 2)
            return symnp.arctan((e - vp) / dd)
        g0 = grad(corner_elev(*enter[1:]), enter[1], enter[2])
        g1 = grad(elev[r, c], r, c)
        g2 = grad(corner_elev(*exit_[1:]), exit_[1], exit_[2])
        gq = grad(elev[r, c] + tval, r, c)
        geo[(r, c)] = dict(ca=ca, a0=enter[0], a2=exit_[0], d2=d2, g=(g0, g1, g2), gq=gq)
    for cpos in cs:
        G = geo[cpos]
        strict_block = []
        all_clear = []
        for dpos in cs:
            if dpos == cpos:
                continue
            D = geo[dpos]
            if D['d2'] >= G['d2'] - 1e-12:
                continue
            off = _unwrap(G['ca'], D['ca'])          # bearing of c relative to d's centre
            if not (D['a0'] - EPS <= off <= D['a2'] + EPS):
                continue
            inside_strict = D['a0'] + EPS < off < D['a2'] - EPS
            g0, g1, g2 = D['g']
            if off < 0:
                gi = g1 + (g0 - g1) * (off / D['a0'])
            elif off > 0:
                gi = g1 + (g2 - g1) * (off / D['a2'])
            else:
                gi = g1
            if inside_strict:
                strict_block.append(gi > G['gq'] + EPS)
            all_clear.append(gi < G['gq'] - EPS)
        o = out[cpos]
        blocked = Or(*strict_block) if strict_block else False
        clear = And(*all_clear) if all_clear else True
        info = (lambda m, cpos=cpos, o=o: {'cell': list(cpos), 'observer': [vr, vc], 'got': ctx.ev(m, o), 'elev': [ctx.ev(m, v) for v in elev.flat_values()],
                                          'observer_elev': ctx.ev(m, obs_elev), 'target_elev': ctx.ev(m, tgt)})
        ctx.check('blocked-cells-are-minus-one', Implies(blocked, o == -1), info)
        ctx.check('clear-cells-are-visible', Implies(clear, o != -1), info)


def body_vertical(ctx, job):
    sc.set_axioms(atan_mono=True)
    vp = ctx.real('viewpoint_elev', lo=-100, hi=100)
    e = ctx.real('cell_elev', lo=-100, hi=100)
    for d2 in (1.0, 4.0, 5.0, 0.25, 13.0):
        o = ctx.call('viewshed:_get_vertical_ang', vp, d2, e)
        ctx.observe('ang_%s' % d2, o)
        diff = vp - e
        dist = math.sqrt(d2)
        want = ite(diff == 0, 90.0, ite(diff > 0, symnp.arctan(dist / diff) * 180 / math.pi, symnp.arctan(abs(diff) / dist) * 180 / math.pi + 90))
        ctx.check('vertical-angle-formula', ctx.close(o, want, TOL64))
        ctx.check('vertical-angle-in-0-180', And(o >= -1e-9, o <= 180 + 1e-9))
        ctx.check('level-is-90-above-is-less-below-is-more', And(Implies(diff == 0, o == 90), Implies(diff > 0, o < 90 + 1e-9), Implies(diff < 0, o > 90 - 1e-9)))


def body_events(ctx, job, elev):
    h, w = job['shape']
    vr, vc = job['obs']
    n = 3 * (h * w - 1)
    ev = symnp.zeros((n, 7), 'float64')
    data = symnp.zeros((3, w), 'float64')
    vis = symnp.full((h, w), -1.0, 'float64')
    ctx.call('viewshed:_init_event_list', ev, elev, vr, vc, data, vis)
    ctx.observe('angles', [ev[i, 3] for i in range(n)])
    vs = ctx.lib('viewshed') if ctx.mode != 'conc' else None
    ctx.check('observer-cell-marked-180', vis[vr, vc] == 180)
    per_cell = {}
    for i in range(n):
        row = [ev[i, k] for k in range(7)]
        r = int(sc.as_const(row[0]) if sc.is_sym(row[0]) else row[0])
        c = int(sc.as_const(row[1]) if sc.is_sym(row[1]) else row[1])
        per_cell.setdefault((r, c), []).append(row)
    ctx.check('three-events-per-non-observer-cell', set(per_cell) == {c for c in cells((h, w)) if c != (vr, vc)} and all(len(v) == 3 for v in per_cell.values()))
    for (r, c), rows in per_cell.items():
        ca, enter, exit_ = _cell_geometry(r, c, vr, vc)
        bytype = {int(sc.as_const(x[2]) if sc.is_sym(x[2]) else x[2]): x for x in rows}
        ok = set(bytype) == {1, 0, -1}
        ctx.check('enter-centre-exit-present', ok)
        if not ok:
            continue

        def num(v):
            return sc.as_const(v) if sc.is_sym(v) else float(v)
        # event layout: row, col, type, angle, elev_enter, elev_centre, elev_exit
        for typ, geom in ((1, enter), (-1, exit_)):
            want_ang = (ca + geom[0]) % (2 * math.pi)
            got = num(bytype[typ][3])
            d = abs(got - want_ang)
            ctx.check('corner-bearing-is-extreme-corner', min(d, 2 * math.pi - d) < 1e-9, info={'cell': [r, c], 'observer': [vr, vc], 'type': typ, 'got': got, 'want': want_ang})
            nr, nc = r + geom[3], c + geom[4]
            if 0 <= nr < h and 0 <= nc < w:
                want_e = (elev[r, c] + elev[nr, c] + elev[r, nc] + elev[nr, nc]) / 4.0
            else:
                want_e = elev[r, c]
            got_e = bytype[typ][4 if typ == 1 else 6]
            ctx.check('corner-elevation-is-mean-of-the-four-cells-at-that-corner', ctx.close(got_e, want_e, TOL64),
                      info=lambda m, r=r, c=c, typ=typ, got_e=got_e, want_e=want_e: {'cell': [r, c], 'observer': [vr, vc], 'type': typ, 'got': ctx.ev(m, got_e), 'want': ctx.ev(m, want_e)})
        dca = abs(num(bytype[0][3]) - ca)
        ctx.check('centre-bearing', min(dca, 2 * math.pi - dca) < 1e-9)
        for typ in (1, 0, -1):
            ctx.check('centre-elevation-carried', same(bytype[typ][5], elev[r, c]))


def body_tree(ctx, job):
    sc.set_axioms(atan_mono=False)
    vs = ctx.lib('viewshed')
    n = 20
    tvals = symnp.zeros((n, 8), 'float64')
    tnodes = symnp.zeros((n, 4), 'int64')
    root = ctx.call('viewshed:_create_status_struct', tvals, tnodes)
    idle = symnp.zeros((n,), 'int64')
    for i in range(0, n - 1):
        idle[i] = n - i
    idle[0] = n - 2
    used = sorted({k for _, k in job['history']})
    if job.get('keys') == 'KEYS8':
        # deep trees: only the gradients of the deleted nodes (and the query) are symbolic, the rest are distinct dyadic constants
        symk = {k for op, k in job['history'] if op == 'del'}
        G = {k: ([ctx.real('g%d_%d' % (int(k), j), lo=-1.5, hi=1.5) for j in range(3)] if k in symk else
                 [-1.0 + ((int(k) * 5) % 9) / 8.0 + j / 64.0 for j in range(3)]) for k in used}
    else:
        G = {k: [ctx.real('g%d_%d' % (int(k), j), lo=-1.5, hi=1.5) for j in range(3)] for k in used}
    active = set()
    for op, k in job['history']:
        if op == 'ins':
            sn = symnp.zeros((7,), 'float64')
            sn[0] = k
            sn[1], sn[2], sn[3] = G[k]
            sn[4], sn[5], sn[6] = ANG[k]
            nid = ctx.call('viewshed:_pop', idle)
            root = ctx.call('viewshed:_insert_into_tree', tvals, tnodes, root, nid, sn)
            active.add(k)
        else:
            root, deleted = ctx.call('viewshed:_delete_from_tree', tvals, tnodes, root, k)
            ctx.call('viewshed:_push', idle, deleted)
            active.discard(k)
    gq = ctx.real('gq', lo=-1.5, hi=1.5)

    def interp(g, a, ang):
        g0, g1, g2 = g
        a0, a1, a2 = a
        if ang < a1:
            return g1 + (g0 - g1) * ((a1 - ang) / (a1 - a0))
        if ang > a1:
            return g1 + (g2 - g1) * ((ang - a1) / (a2 - a1))
        return g1
    for kq in sorted(active):      # the sweep only queries the cell whose centre event fires, and that cell is in the structure
        r = ctx.call('viewshed:_max_grad_in_status_struct', tvals, tnodes, root, kq, QANG, gq)
        ctx.observe('max_%d' % int(kq), r)
        near = [j for j in active if j < kq]
        gis = [interp(G[j], ANG[j], QANG) for j in near]
        blocked = Or(*[gi > gq + EPS for gi in gis]) if gis else False
        clear = And(*[gi < gq - EPS for gi in gis]) if gis else True
        visible = r <= gq
        ctx.check('query-decision-equals-brute-force-over-nearer-active-nodes', And(Implies(blocked, Not(visible)), Implies(clear, visible)),
                  info=lambda m, kq=kq, r=r: {'history': job['history'], 'query_key': kq, 'max_reported': ctx.ev(m, r), 'query_gradient': ctx.ev(m, gq),
                                              'gradients': {str(j): [ctx.ev(m, g) for g in G[j]] for j in sorted(active)}})
