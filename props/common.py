"""helpers shared by property harnesses"""
import itertools
import math

import numpy as _np

from sx import symnp, symxr, symda, core as sc
from sx.symnp import SymArray
from sx.harness import And, Or, Not, Implies, Iff, ite, isnan, same, Sum, Skip, TOL32, TOL64  # noqa: F401


def coords_affine(n, c0, step):
    return SymArray.from_list([c0 + i * step for i in range(n)], (n,), _np.float64, cast=True)


def raster(data, dims=('y', 'x'), ys=None, xs=None, attrs=None, name=None, chunks=None):
    """symxr.DataArray around a SymArray (optionally dask-backed with the given chunk grid)"""
    h, w = data.shape[-2:]
    if ys is None:
        ys = coords_affine(h, float(h - 1), -1.0)
    if xs is None:
        xs = coords_affine(w, 0.0, 1.0)
    d = data
    if chunks is not None:
        d = symda.Array(data, tuple(tuple(c) for c in chunks))
    coords = {dims[-2]: ys, dims[-1]: xs} if ys is not False else None
    return symxr.DataArray(d, dims=dims, coords=coords, attrs=attrs or {}, name=name)


def compositions(n):
    """all compositions of n (ordered tuples of positive ints summing to n)"""
    out = []
    for k in range(n):
        for cuts in itertools.combinations(range(1, n), k):
            pts = (0,) + cuts + (n,)
            out.append(tuple(b - a for a, b in zip(pts[:-1], pts[1:])))
    return out


def chunk_grids(h, w):
    return [(a, b) for a in compositions(h) for b in compositions(w)]


def cells(shape):
    return list(itertools.product(*[range(s) for s in shape]))


def vals(a):
    """DataArray / Array / SymArray -> SymArray (computed)"""
    if isinstance(a, symxr.DataArray):
        a = a.data
    if isinstance(a, symda.Array):
        a = a.compute()
    return a


def pick(seq, k, seed, always=()):
    """deterministic seeded subset of size <= k that always contains the indices in `always`"""
    import random
    idx = list(range(len(seq)))
    rnd = random.Random(seed)
    rnd.shuffle(idx)
    chosen = list(dict.fromkeys(list(always) + idx))[:k]
    return [seq[i] for i in sorted(chosen)]
