"""C10 Analysis functions never modify their inputs and keep the raster's identity."""
import math

import numpy as _np

from sx import symnp, symxr, symda, core as sc, userfuncs
from sx.symnp import SymArray
from .common import raster, coords_affine, cells, And, Or, Not, Implies, ite, isnan, same, vals, Skip

ID = 'C10'
LEVEL = 'model_checking'
META = {
    'modules': ['slope', 'aspect', 'curvature', 'hillshade', 'focal', 'convolution', 'classify', 'multispectral', 'proximity', 'pathfinding', 'zonal', 'utils'],
    'functions': ['every public raster-in/raster-out wrapper listed under coverage.per_job (slope, aspect, curvature, hillshade, focal.mean/apply/hotspots, convolution_2d, binary, reclassify, '
                  'quantile, equal_interval, natural_breaks, ndvi, evi, savi, proximity, allocation, direction, regions, a_star_search, zonal.stats, crosstab, trim, crop)'],
    'bounds': {'quick': 'rasters 3x3 (3x4 for window operations) with symbolic cell values; dtype kinds float64, float32, int32, uint8; memory layouts C, F, strided view of a larger buffer, '
                        'read-only; numpy backend for every function x dtype x layout (seeded half at the quick tier), dask backend (2 chunk grids) for the functions that accept it; '
                        'per call: every input cell / coordinate / attribute compared before and after (solver query per cell), buffer identity of the result, write probe, '
                        'result shape / dims / coords / attrs / backend',
               'thorough': 'the full product and two consecutive calls on the same inputs'},
    'stubs': ['view / copy semantics of the numpy shim (astype copies unless copy=False with equal dtype, ravel/reshape alias when contiguous, flatten copies, slicing views), validated by replay'],
    'outside': ['generate_terrain (builds its coordinates with datashader.Canvas, which is not shimmed; its kernel copies the template with `data * 0`)', 'aliasing that only exists in compiled code (numba array reflection)', 'CuPy', 'viewshed (dtype widening; covered by C05 replay only)', 'polygonize'],
    'assumptions': [],
    'budget_s': {'quick': 240, 'thorough': 1800},
}

WINDOW = {'slope', 'aspect', 'curvature', 'hillshade', 'mean0', 'mean1', 'apply', 'hotspots', 'convolution_2d'}
DASK_OK = {'perlin', 'generate_terrain', 'slope', 'aspect', 'curvature', 'hillshade', 'mean1', 'apply', 'hotspots', 'convolution_2d', 'binary', 'reclassify', 'equal_interval', 'ndvi', 'evi', 'proximity'}
FUNCS = ['slope', 'aspect', 'curvature', 'hillshade', 'mean0', 'mean1', 'apply', 'hotspots', 'convolution_2d', 'binary', 'reclassify', 'quantile', 'equal_interval',
         'natural_breaks', 'ndvi', 'evi', 'savi', 'proximity', 'allocation', 'direction', 'regions', 'a_star_search', 'stats', 'crosstab', 'crosstab3d', 'trim', 'crop', 'perlin']
GENERATORS = {'perlin', 'generate_terrain'}
VIEW_OK = {'trim', 'crop'}           # documented: windows (views) of the input
OWN_SHAPE = {'stats', 'crosstab', 'crosstab3d', 'trim', 'crop', 'perlin', 'generate_terrain'}     # generators: the raster argument is a template, identity of coords is not claimed
TWO_INPUT = {'ndvi', 'savi', 'stats', 'crosstab', 'crosstab3d', 'crop'}
THREE_INPUT = {'evi'}
FORKY = {'crosstab3d', 'reclassify', 'ndvi', 'binary', 'quantile', 'natural_breaks', 'equal_interval', 'stats', 'crosstab', 'regions', 'a_star_search', 'proximity', 'allocation', 'direction', 'trim', 'crop', 'mean1', 'mean0'}


def jobs(tier, seed):
    import random
    out = []
    rnd = random.Random(seed)
    for f in FUNCS:
        combos = [(dt, lay) for dt in ('float64', 'float32', 'int32', 'uint8') for lay in ('C', 'F', 'strided', 'readonly')]
        if f in GENERATORS:
            # the raster argument is a template whose values are ignored: float templates only (integer templates are rejected or truncated by design)
            combos = [(dt, lay) for dt in ('float64', 'float32') for lay in ('C', 'F', 'strided', 'readonly')]
        if tier == 'quick':
            keep = [c for c in combos if c in (('float64', 'C'), ('int32', 'C'), ('float32', 'strided'), ('float64', 'readonly'), ('float64', 'F'), ('uint8', 'F'))]
            rest = [c for c in combos if c not in keep]
            rnd.shuffle(rest)
            combos = keep + rest[:2]
        for dt, lay in combos:
            out.append({'name': '%s-%s-%s-numpy' % (f, dt, lay), 'fn': f, 'dtype': dt, 'layout': lay, 'backend': 'numpy'})
        if f in ('slope', 'curvature', 'proximity', 'a_star_search'):
            # no 'res' attribute: the cell size is derived from the coordinates - and must not be written back into the caller's attrs
            out.append({'name': '%s-float64-C-numpy-nores' % f, 'fn': f, 'dtype': 'float64', 'layout': 'C', 'backend': 'numpy', 'nores': True})
        if f in DASK_OK:
            for dt in (('float64', 'int32') if f not in GENERATORS else ('float64', 'float32')):
                for chunks in ('one', 'split'):
                    out.append({'name': '%s-%s-dask-%s' % (f, dt, chunks), 'fn': f, 'dtype': dt, 'layout': 'C', 'backend': 'dask', 'chunks': chunks})
    return out


def _layout(arr, lay):
    """re-house the SymArray's values in a buffer with the requested memory layout"""
    h, w = arr.shape
    vals_ = arr.flat_values()
    if lay in ('C', 'readonly'):
        a = SymArray.from_list(vals_, (h, w), arr.dtype)
        if lay == 'readonly':
            a._wr = False
    elif lay == 'F':
        idx = _np.arange(h * w).reshape(w, h).T
        buf = [None] * (h * w)
        for (y, x) in cells((h, w)):
            buf[int(idx[y, x])] = arr[y, x]
        a = SymArray(buf, idx, arr.dtype)
    else:
        big = SymArray.from_list([0] * ((2 * h + 1) * (2 * w + 1)), (2 * h + 1, 2 * w + 1), arr.dtype, cast=True)
        a = big[1:2 * h + 1:2, 1:2 * w + 1:2]
        for (y, x) in cells((h, w)):
            a[y, x] = arr[y, x]
    a._sx_layout = {'C': 'C', 'readonly': 'C', 'F': 'F', 'strided': 'strided'}[lay]
    return a


def _mk(ctx, name, shape, dt, lay, backend, chunks, forky, nsym=2, with_inf=False, nores=False):
    h, w = shape
    symcells = ((0, 1), (h - 1, w - 1))[:nsym]
    if dt.startswith('float'):
        if forky:
            base = symnp.asarray([[float(3 + ((y * 5 + x * 3) % 7)) for x in range(w)] for y in range(h)], dt).copy()
            for k, (y, x) in enumerate(symcells):
                base[y, x] = ctx.real('%s_%d' % (name, k), nan=False, lo=0.5, hi=20)
        else:
            base = ctx.array(name, (h, w), dt, nan=False)
    else:
        rng = {'int32': (1, 50), 'uint8': (1, 50)}[dt]
        if forky:
            base = symnp.asarray([[3 + ((y * 5 + x * 3) % 7) for x in range(w)] for y in range(h)], dt).copy()
            for k, (y, x) in enumerate(symcells):
                base[y, x] = ctx.integer('%s_%d' % (name, k), rng[0], rng[1])
        else:
            base = ctx.array(name, (h, w), dt, lo=rng[0], hi=rng[1])
    if with_inf and dt.startswith('float'):
        base[h - 1, 0] = float('inf')      # the classifiers treat +-inf cells specially (they must do so on a copy)
    data = _layout(base, lay)
    ys = coords_affine(h, float(h + 1), -1.0)
    xs = coords_affine(w, 2.0, 1.0)
    d = data
    if backend == 'dask':
        ch = ((h,), (w,)) if chunks == 'one' else ((1, h - 1), (2, w - 2))
        d = symda.Array(data, ch)
    attrs = {'res': (1.0, 1.0), 'crs': 'EPSG:4326', 'nested': {'a': [1, 2]}}
    if nores:
        del attrs['res']
    agg = symxr.DataArray(d, dims=('y', 'x'), coords={'y': ys, 'x': xs, 'band': symnp.asarray(7)}, attrs=attrs, name=name)
    return agg, data


def _snapshot(agg, data):
    return {'cells': list(data._buf), 'idx': data._idx.copy(), 'coords': {k: list(c.data.flat_values()) for k, c in agg.coords.items()},
            'attrs': repr(sorted(agg.attrs.items())), 'dims': tuple(agg.dims), 'name': agg.name, 'dtype': str(data.dtype), 'shape': tuple(data.shape),
            'wr': data._wr}


KERNELS = {}


def _fresh_kernels():
    """the kernel arguments are inputs too: float64 arrays as circle_kernel / annulus_kernel return them"""
    KERNELS['apply'] = symnp.asarray([[0, 1, 0], [1, 1, 1], [0, 1, 0]], 'float64').copy()
    KERNELS['hotspots'] = symnp.ones((3, 3), 'float64').copy()
    KERNELS['convolution_2d'] = symnp.asarray([[0, 1, 0], [1, 2, 1], [0, 1, 0]], 'float64').copy()


def _call(ctx, fn, aggs):
    a = aggs[0]
    if fn in ('slope', 'aspect', 'curvature', 'hillshade'):
        return ctx.call('%s:%s' % (fn, fn), a)
    if fn == 'mean0':
        return ctx.call('focal:mean', a, 0)
    if fn == 'mean1':
        return ctx.call('focal:mean', a, 1)
    if fn == 'apply':
        return ctx.call('focal:apply', a, KERNELS['apply'])
    if fn == 'hotspots':
        return ctx.call('focal:hotspots', a, KERNELS['hotspots'])
    if fn == 'convolution_2d':
        return ctx.call('convolution:convolution_2d', a, KERNELS['convolution_2d'])
    if fn == 'binary':
        return ctx.call('classify:binary', a, [3, 5])
    if fn == 'reclassify':
        return ctx.call('classify:reclassify', a, [4, 8, 60], [0, 1, 2])
    if fn == 'quantile':
        return ctx.call('classify:quantile', a, 2)
    if fn == 'equal_interval':
        return ctx.call('classify:equal_interval', a, 2)
    if fn == 'natural_breaks':
        return ctx.call('classify:natural_breaks', a, 20000, 'nb', 2)
    if fn == 'ndvi':
        return ctx.call('multispectral:ndvi', a, aggs[1])
    if fn == 'savi':
        return ctx.call('multispectral:savi', a, aggs[1])
    if fn == 'evi':
        return ctx.call('multispectral:evi', a, aggs[1], aggs[2])
    if fn in ('proximity', 'allocation', 'direction'):
        return ctx.call('proximity:' + fn, a, 'x', 'y', [4, 5])
    if fn == 'regions':
        return ctx.call('zonal:regions', a, 4)
    if fn == 'a_star_search':
        ys = a.coords['y'].data.flat_values()
        xs = a.coords['x'].data.flat_values()
        return ctx.call('pathfinding:a_star_search', a, (float(ys[0]), float(xs[0])), (float(ys[-1]), float(xs[-1])), [4])
    if fn == 'stats':
        return ctx.call('zonal:stats', a, aggs[1], None, ['mean', 'max', 'count'])
    if fn == 'crosstab':
        return ctx.call('zonal:crosstab', a, aggs[1])
    if fn == 'crosstab3d':
        return ctx.call('zonal:crosstab', a, aggs[1], None, None, 0, 'sum')
    if fn == 'trim':
        return ctx.call('zonal:trim', a, [3])
    if fn == 'crop':
        return ctx.call('zonal:crop', a, aggs[1], [3, 4, 5])
    if fn == 'perlin':
        return ctx.call('perlin:perlin', a)
    if fn == 'generate_terrain':
        return ctx.call('terrain:generate_terrain', a)
    raise KeyError(fn)


def body(ctx, job):
    sc.set_axioms(congruence='syntactic')
    fn = job['fn']
    dt = job['dtype']
    lay = job['layout']
    backend = job['backend']
    shape = (3, 4) if fn in WINDOW else (3, 3)
    forky = fn in FORKY
    ninp = 3 if fn in THREE_INPUT else (2 if fn in TWO_INPUT else 1)
    if fn in ('stats', 'crosstab', 'crop') and dt in ('float32', 'float64'):
        pass
    inputs = []
    for i in range(ninp):
        # zonal functions: zones must be integer-like for crop / small alphabets
        idt = dt
        agg, data = _mk(ctx, 'in%d' % i, shape, idt, lay, backend, job.get('chunks'), forky, nsym=1 if fn in ('crosstab', 'crosstab3d', 'natural_breaks', 'stats') else 2,
                        with_inf=fn in ('equal_interval', 'quantile', 'natural_breaks', 'binary', 'reclassify'), nores=bool(job.get('nores')))
        if fn == 'crosstab3d' and i == 1:
            # values: a (layer, y, x) cube in one C-ordered buffer, category dimension first
            h_, w_ = shape
            flat = list(data.flat_values())
            second = [v + 1 if not sc.is_sym(v) else v + 1 for v in flat]
            data = SymArray.from_list(flat + second, (2, h_, w_), data.dtype, cast=True)
            agg = symxr.DataArray(data, dims=('layer', 'y', 'x'), coords={'layer': symnp.asarray([10, 20]), 'y': agg.coords['y'].data, 'x': agg.coords['x'].data},
                                  attrs=dict(agg.attrs), name='in1')
        inputs.append((agg, data))
    snaps = [_snapshot(a, d) for a, d in inputs]
    _fresh_kernels()
    ksnap = {k: list(v.flat_values()) for k, v in KERNELS.items()}
    exc = ctx.raises(_call, ctx, fn, [a for a, _ in inputs])
    if fn in KERNELS:
        ctx.check('kernel-argument-unchanged', [_plain_num(v) for v in KERNELS[fn].flat_values()] == [_plain_num(v) for v in ksnap[fn]],
                  info={'fn': fn, 'before': [_plain_num(v) for v in ksnap[fn]], 'after': [_plain_num(v) for v in KERNELS[fn].flat_values()]})
    if exc == 'ZeroDivisionError' and fn == 'hotspots':
        raise Skip()      # constant raster: documented error of the numpy path
    if exc is not None:
        # a read-only or oddly laid out input must not make an analysis function fail
        ctx.check('accepts-this-dtype-layout', False, info={'exception': exc, 'fn': fn, 'dtype': dt, 'layout': lay})
        return
    res = ctx.last
    if hasattr(res, 'compute') and not isinstance(res, symxr.DataArray):
        res = res.compute()
    lazy_ok = True
    if backend == 'dask' and isinstance(res, symxr.DataArray):
        lazy_ok = isinstance(res.data, symda.Array)
        ctx.check('dask-in-dask-out', lazy_ok)
    out = vals(res) if isinstance(res, symxr.DataArray) else None
    if out is not None:
        ctx.observe('out', out.copy())

    def unchanged(tag):
        for (agg, data), snap in zip(inputs, snaps):
            now = data._buf
            ok_struct = (len(now) == len(snap['cells']) and _np.array_equal(data._idx, snap['idx']) and str(data.dtype) == snap['dtype'] and data._wr == snap['wr']
                         and tuple(agg.dims) == snap['dims'] and agg.name == snap['name'] and repr(sorted(agg.attrs.items())) == snap['attrs']
                         and tuple(_data_shape(agg)) == snap['shape'] and isinstance(agg.data, symda.Array) == (backend == 'dask'))
            ctx.check(tag + '-structure-coords-attrs-unchanged', ok_struct and all(
                len(agg.coords[k].data.flat_values()) == len(v) and all(_eq_plain(p, q) for p, q in zip(agg.coords[k].data.flat_values(), v)) for k, v in snap['coords'].items())
                and set(agg.coords) == set(snap['coords']))
            if not ok_struct:
                continue
            for i, (b, a) in enumerate(zip(snap['cells'], now)):
                if b is a:
                    continue
                ctx.check(tag + '-input-values-unchanged', same(a, b), info=lambda m, i=i, a=a, b=b: {'buffer_index': i, 'before': ctx.ev(m, b), 'after': ctx.ev(m, a), 'fn': fn})
            ctx.check(tag + '-input-values-unchanged', True)
    unchanged('after-call')
    if out is None:
        return
    # identity of the result
    a0, d0 = inputs[0]
    ref_in = inputs[1][0] if fn == 'crop' else a0
    if fn not in OWN_SHAPE:
        ctx.check('result-keeps-shape-dims-coords-attrs',
                  And(tuple(out.shape) == tuple(shape), tuple(res.dims) == tuple(ref_in.dims), set(res.coords) == set(ref_in.coords),
                      all(_eq_coord(res.coords[k], ref_in.coords[k]) for k in ref_in.coords if k in res.coords),
                      all(res.attrs.get(k) == v for k, v in ref_in.attrs.items() if not (fn == 'hotspots' and k == 'unit'))),
                  info={'fn': fn, 'dims': list(res.dims), 'coords': list(res.coords), 'attrs': repr(res.attrs)})
    # no shared writable memory (write probe)
    if fn not in VIEW_OK:
        for pos, (agg, data) in enumerate(inputs):
            ctx.check('result-shares-no-memory-with-input', not ctx.shares_memory(res, agg, pos), info={'fn': fn, 'input': pos, 'dtype': dt, 'layout': lay})
        if ctx.mode != 'conc' and isinstance(out, SymArray) and out._wr:
            probe = out
            for c in cells(tuple(out.shape)):
                probe[c] = 12345
            unchanged('after-writing-to-the-result')
        if res.attrs is a0.attrs and fn == 'hotspots':
            ctx.check('attrs-not-shared-when-modified', False)


def _plain_num(v):
    return sc.as_const(v) if sc.is_sym(v) else float(v)


def _data_shape(agg):
    return agg.data.shape


def _eq_plain(p, q):
    p = sc.as_const(p) if sc.is_sym(p) else p
    q = sc.as_const(q) if sc.is_sym(q) else q
    if isinstance(p, float) and p != p:
        return isinstance(q, float) and q != q
    return p == q


def _eq_coord(a, b):
    av, bv = a.data.flat_values(), b.data.flat_values()
    return len(av) == len(bv) and all(_eq_plain(p, q) for p, q in zip(av, bv)) and tuple(a.dims) == tuple(b.dims)
