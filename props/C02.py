"""C02 Zonal statistics summarise exactly the valid cells of each zone."""
import math

from sx import symnp, core as sc, userfuncs
from sx.harness import TOL64, isfinite
from .common import raster, coords_affine, cells, And, Or, Not, Implies, ite, isnan, same, vals, Skip, Sum

ID = 'C02'
LEVEL = 'model_checking'
META = {
    'modules': ['zonal', 'utils'],
    'functions': ['xrspatial.zonal.stats', 'xrspatial.zonal._stats_numpy', 'xrspatial.zonal._sort_and_stride', 'xrspatial.zonal._strides', 'xrspatial.zonal._calc_stats',
                  'xrspatial.zonal._stats_count', 'xrspatial.utils.validate_arrays'],
    'bounds': {'quick': 'zones / values rasters of 3 cells (1x3; zone ids symbolic reals that may be NaN or +-inf, values NaN or +-inf, nodata symbolic) for every statistic, a user reducer, '
                        'zone_ids None / [z] / [z1, z2] in any order incl. absent ids, both return types; 4 cells (2x2) for count / sum / max with finite-or-NaN zones; integer zones (int32 / int64 / uint8 in a small range) with float64, float32 or int32 values',
               'thorough': '4 cells (1x4, 2x2) for every statistic and selection'},
    'stubs': ['numba.jit = identity', 'pandas.DataFrame = sx.minipd', 'np.argsort / np.unique on symbolic data = forking insertion sort (NaN last)',
              'boolean-mask selection = lazily compressed array (reductions by ite over the mask)'],
    'outside': ['more than 4 cells', 'float rounding of sums', 'cupy path', 'duplicate ids in zone_ids'],
    'assumptions': ['exact real arithmetic', 'requested zone ids pairwise distinct'],
    'budget_s': {'quick': 240, 'thorough': 1800},
}

ALL = ['mean', 'max', 'min', 'sum', 'std', 'var', 'count']


def jobs(tier, seed):
    out = []
    for st in ALL + ['user-range', 'user-size']:
        out.append({'name': 'stats-1x3-%s' % st, 'shape': [1, 3], 'stats': [st], 'sel': 'none', 'ret': 'pandas.DataFrame', 'inf': True})
    out.append({'name': 'stats-1x3-default-list', 'shape': [1, 3], 'stats': None, 'sel': 'none', 'ret': 'pandas.DataFrame', 'inf': False})
    for sel in ('one', 'two'):
        out.append({'name': 'stats-1x3-zone_ids-%s' % sel, 'shape': [1, 3], 'stats': ['count', 'max'], 'sel': sel, 'ret': 'pandas.DataFrame', 'inf': True})
        out.append({'name': 'stats-1x3-zone_ids-%s-dataarray' % sel, 'shape': [1, 3], 'stats': ['sum', 'count'], 'sel': sel, 'ret': 'xarray.DataArray', 'inf': False})
    out.append({'name': 'stats-1x3-dataarray', 'shape': [1, 3], 'stats': ['mean', 'min'], 'sel': 'none', 'ret': 'xarray.DataArray', 'inf': True})
    # integer zones (the usual case) and integer values
    out.append({'name': 'stats-1x3-int-zones', 'shape': [1, 3], 'stats': ['count', 'sum', 'max'], 'sel': 'none', 'ret': 'pandas.DataFrame', 'inf': False, 'zdtype': 'int32'})
    out.append({'name': 'stats-1x3-int-zones-int-values', 'shape': [1, 3], 'stats': ['mean', 'min', 'count'], 'sel': 'one', 'ret': 'pandas.DataFrame', 'inf': False, 'zdtype': 'int64', 'vdtype': 'int32'})
    out.append({'name': 'stats-1x3-int-zones-dataarray', 'shape': [1, 3], 'stats': ['sum', 'max'], 'sel': 'two', 'ret': 'xarray.DataArray', 'inf': False, 'zdtype': 'uint8', 'vdtype': 'float32'})
    # zones and values in different memory layouts (values Fortran-ordered, e.g. a transposed view): cells must still be paired by position
    out.append({'name': 'stats-2x2-values-fortran-order', 'shape': [2, 2], 'stats': ['sum', 'max'], 'sel': 'none', 'ret': 'pandas.DataFrame', 'inf': False, 'vlayout': 'F'})
    out.append({'name': 'stats-2x2-zones-fortran-order-dataarray', 'shape': [2, 2], 'stats': ['sum'], 'sel': 'none', 'ret': 'xarray.DataArray', 'inf': False, 'zlayout': 'F'})
    out.append({'name': 'stats-2x2-count-sum-max', 'shape': [2, 2], 'stats': ['count', 'sum', 'max'], 'sel': 'none', 'ret': 'pandas.DataFrame', 'inf': False})
    if tier != 'quick':
        for st in ALL:
            out.append({'name': 'stats-1x4-%s' % st, 'shape': [1, 4], 'stats': [st], 'sel': 'none', 'ret': 'pandas.DataFrame', 'inf': False})
        out.append({'name': 'stats-2x2-zone_ids-two', 'shape': [2, 2], 'stats': ['count', 'mean'], 'sel': 'two', 'ret': 'pandas.DataFrame', 'inf': False})
        out.append({'name': 'stats-2x2-dataarray', 'shape': [2, 2], 'stats': ['max'], 'sel': 'one', 'ret': 'xarray.DataArray', 'inf': False})
    return out


def _check_stat(ctx, st, got, inz, vl, info=None):
    """got must be statistic `st` over {v_i : inz_i}; NaN when the set is empty"""
    cnt = Sum([ite(c, 1, 0) for c in inz])
    sm = Sum([ite(c, v, 0.0) for c, v in zip(inz, vl)])
    empty = cnt == 0
    label = 'stat-' + st
    if st in ('count', 'user-size'):
        ctx.check(label, Or(And(empty, isnan(got)), And(Not(empty), got == cnt)), info)
    elif st == 'sum':
        ctx.check(label, Or(And(empty, isnan(got)), And(Not(empty), ctx.close(got, sm, TOL64))), info)
    elif st == 'mean':
        ctx.check(label, Or(And(empty, isnan(got)), And(Not(empty), ctx.close(got * cnt, sm, TOL64))), info)
    elif st in ('max', 'min'):
        bound = And(*[Implies(c, (got >= v) if st == 'max' else (got <= v)) for c, v in zip(inz, vl)])
        att = Or(*[And(c, got == v) for c, v in zip(inz, vl)])
        ctx.check(label, Or(And(empty, isnan(got)), And(Not(empty), bound, att)), info)
    elif st == 'user-range':
        ok = Or(*[And(a, b, ctx.close(got, va - vb, TOL64), *[Implies(c, And(v <= va, v >= vb)) for c, v in zip(inz, vl)])
                  for a, va in zip(inz, vl) for b, vb in zip(inz, vl)])
        ctx.check(label, Or(And(empty, isnan(got)), And(Not(empty), ok)), info)
    else:
        sq = Sum([ite(c, v * v, 0.0) for c, v in zip(inz, vl)])
        # one polynomial identity per possible cell count k:  var * k^2 == k * sum(x^2) - (sum x)^2
        parts = [And(empty, isnan(got))]
        for k in range(1, len(vl) + 1):
            rhs = k * sq - sm * sm
            if st == 'var':
                parts.append(And(cnt == k, ctx.close(got * (k * k), rhs, TOL64)))
            else:
                parts.append(And(cnt == k, got >= 0, ctx.close(got * got * (k * k), rhs, TOL64)))
        ctx.check(label, Or(*parts), info)


def body(ctx, job):
    sc.set_axioms(sqrt_exact=True, congruence='syntactic')
    h, w = job['shape']
    n = h * w
    zdt, vdt = job.get('zdtype', 'float64'), job.get('vdtype', 'float64')
    zones_d = ctx.array('z', (h, w), zdt, nan=True, inf=job['inf'], **({'lo': 0 if zdt[0] == 'u' else -2, 'hi': 3} if zdt[0] in 'iu' else {}))
    heavy = job['stats'] is None or any(st in ('std', 'var') for st in (job['stats'] or []))
    # std / var are polynomial identities: keep every value valid there (validity filtering is exercised by the other statistics)
    vals_d = ctx.array('v', (h, w), vdt, nan=not heavy, inf=job['inf'] and not heavy, **({'lo': -4, 'hi': 4} if vdt[0] in 'iu' else {}))
    ys = coords_affine(h, float(h), -1.0)
    xs = coords_affine(w, 3.0, 2.0)
    if job.get('vlayout') == 'F':
        vals_d = symnp.asfortranarray(vals_d)
    if job.get('zlayout') == 'F':
        zones_d = symnp.asfortranarray(zones_d)
    zones = raster(zones_d, ys=ys, xs=xs, name='zones')
    values = raster(vals_d, ys=ys, xs=xs, name='values', attrs={'res': (2.0, 1.0)})
    nodata = ctx.real('nodata') if not heavy else None
    zl = zones_d.flat_values()
    vl = vals_d.flat_values()
    sel = job['sel']
    zone_ids = None
    if sel == 'one':
        zone_ids = [ctx.real('zid1')]
    elif sel == 'two':
        zone_ids = [ctx.real('zid1'), ctx.real('zid2')]
        ctx.assume(zone_ids[0] != zone_ids[1])
    stats = job['stats']
    kw = {}
    if stats is None:
        names = list(ALL)
    elif stats == ['user-range']:
        names = ['user-range']
        kw['stats_funcs'] = {'user-range': userfuncs.range_reducer}
    elif stats == ['user-size']:
        names = ['user-size']
        kw['stats_funcs'] = {'user-size': userfuncs.size_reducer}
    else:
        names = list(stats)
        kw['stats_funcs'] = list(stats)
    res = ctx.call('zonal:stats', zones, values, zone_ids, nodata_values=nodata, return_type=job['ret'], **kw)
    valid = [And(isfinite(v), v != nodata) if nodata is not None else isfinite(v) for v in vl]
    zfin = [isfinite(z) for z in zl]

    def exists_zone(q):
        return Or(*[And(f, z == q) for f, z in zip(zfin, zl)])

    if job['ret'] == 'pandas.DataFrame':
        rows = res['zone'].vals
        ctx.observe('zone_column', list(rows))
        ctx.observe('table', [[res[nm].vals[i] for nm in names] for i in range(len(rows))])
        ctx.check('columns', list(res.columns) == ['zone'] + names)
        for i, zi in enumerate(rows):
            ctx.check('row-label-is-a-finite-zone-present', exists_zone(zi), info=lambda m, zi=zi: {'zone': ctx.ev(m, zi), 'zones': [ctx.ev(m, z) for z in zl]})
            if zone_ids is not None:
                ctx.check('row-was-requested', Or(*[zi == q for q in zone_ids]))
            if i:
                ctx.check('rows-ascending', rows[i - 1] < zi, info=lambda m: {'zone_column': [ctx.ev(m, r) for r in rows]})
        for q, f in (zip(zone_ids, [True] * len(zone_ids)) if zone_ids is not None else zip(zl, zfin)):
            ctx.check('every-requested-existing-zone-has-a-row', Implies(And(f, exists_zone(q)), Or(*[r == q for r in rows]) if rows else False),
                      info=lambda m: {'zones': [ctx.ev(m, z) for z in zl], 'zone_column': [ctx.ev(m, r) for r in rows]})
        for i, zi in enumerate(rows):
            inz = [And(f, z == zi, ok) for f, z, ok in zip(zfin, zl, valid)]
            for nm in names:
                got = res[nm].vals[i]
                _check_stat(ctx, nm, got, inz, vl,
                            info=lambda m, got=got, zi=zi, nm=nm: {'stat': nm, 'zone': ctx.ev(m, zi), 'got': ctx.ev(m, got), 'zones': [ctx.ev(m, z) for z in zl],
                                                                   'values': [ctx.ev(m, v) for v in vl], 'nodata': ctx.ev(m, nodata) if nodata is not None else None})
    else:
        out = vals(res)
        ctx.observe('out', out)
        ctx.check('dataarray-shape-dims', And(tuple(out.shape) == (len(names), h, w), tuple(res.dims) == ('stats', 'y', 'x'),
                                               list(res.coords['stats'].data.flat_values()) == names))
        for si, nm in enumerate(names):
            for k, c in enumerate(cells((h, w))):
                got = out[(si,) + c]
                zk = zl[k]
                selected = And(zfin[k], Or(*[zk == q for q in zone_ids]) if zone_ids is not None else True)
                inz = [And(f, z == zk, ok) for f, z, ok in zip(zfin, zl, valid)]
                ctx.check('cell-outside-selected-zones-is-nan', Implies(Not(selected), isnan(got)))
                # inside a selected zone: the zone's statistic
                if ctx.mode == 'sym':
                    if not bool(selected):
                        continue
                elif not selected:
                    continue
                _check_stat(ctx, nm, got, inz, vl)
