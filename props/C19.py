"""C19 Distance metrics are metrics; circle/annulus kernels are the stated shapes."""
import math

from sx import symnp, core as sc
from sx.harness import TOL64
from .common import raster, coords_affine, cells, And, Or, Not, Implies, ite, isnan, same, vals, Skip, Sum

ID = 'C19'
LEVEL = 'model_checking'
R = 6378137.0
META = {
    'modules': ['proximity', 'convolution', 'utils'],
    'functions': ['xrspatial.proximity.euclidean_distance', 'xrspatial.proximity.manhattan_distance', 'xrspatial.proximity.great_circle_distance',
                  'xrspatial.proximity._distance', 'xrspatial.convolution.circle_kernel', 'xrspatial.convolution.annulus_kernel', 'xrspatial.convolution._ellipse_kernel',
                  'xrspatial.convolution._get_distance', 'xrspatial.convolution._to_meters', 'xrspatial.convolution.calc_cellsize'],
    'bounds': {'quick': 'metrics: all point pairs / triples symbolic reals (great-circle: lon in [-180,180], lat in [-90,90], and symbolic out-of-range values for the rejection claim; the symmetry / bound claims additionally case-split into antimeridian-west, antimeridian-east, interior and pole regions); '
                        'kernels: radius in {1, 2, 2.5, "3", "0.002km"}, cell sizes symbolic with radius/cellsize < 4 (half-widths 0..3 per axis, concretised by the solver); '
                        'annulus inner radius in {0.5, 1} x outer {2, 3}; NOT symbolic: six (radius, cell size) pairs whose kernels have cells exactly on the ellipse (half-widths 5, 13, 17, 25, 13x26) and two pairs with decimal cell sizes (0.1 x 0.25 radius 1, 0.3 x 0.1 radius 0.9) where float true division and float floor division give different half-widths; unit table: every key, symbolic magnitude; distance strings: an enumerated list of well- and mal-formed strings',
               'thorough': 'additionally: circle kernels with half-widths up to 6 per axis (radii 5, "7.5", 6), annuli (4,1) (4,2.5) (5,3) with half-widths up to 5, six more concrete on-the-circle kernels (half-widths 29, 37, 50x25, 41, 41, 65), great-circle symmetry in the antipodal and equatorial regions'},
    'stubs': ['libm sin/cos/asin/sqrt Ackermannised (range, sign on (0,pi), odd/even, sqrt zero / exact)', 'numba.jit = identity'],
    'outside': ['triangle inequality of the great-circle distance (needs spherical trigonometry that is not derivable from the first-order libm axioms)',
                'haversine term a in [0,1] (trigonometric fact, assumed when bounding the distance)',
                'euclidean "zero only when coincident" under float underflow', 'tokenisation of the radius string by re.split for symbolic strings (strings are enumerated)'],
    'assumptions': ['exact real arithmetic'],
    'technique': 'solver-based bounded symbolic execution of the real Python source (z3), counterexample replay on the real build; kernels with cells exactly on the ellipse additionally by concrete evaluation (enumeration, not a solver verdict)',
    'budget_s': {'quick': 150, 'thorough': 900},
}

RADII = [1, 2, 2.5, '3', '0.002km']
BAD_STRINGS = ['0', '-5', 'abc', '5 parsec', '', '1 2 m', '-0.0', 'km']
GOOD_STRINGS = [('10', 10.0), ('2km', 2000.0), ('3 miles', 3 * 1609.344), ('1.5 ft', 1.5 * 0.3048), ('7 M', 7.0), ('2 Kilometers', 2000.0), ('.5m', 0.5)]


def jobs(tier, seed):
    out = [{'name': 'euclidean-metric', 'kind': 'euclid'}, {'name': 'euclidean-triangle-inequality', 'kind': 'euclid-tri'}, {'name': 'manhattan-metric', 'kind': 'manhattan'},
           {'name': 'great-circle-symmetry-zero-bound', 'kind': 'gc'}, {'name': 'great-circle-zero-only-if-coincident', 'kind': 'gc-zero'},
           # the same claims case-split along the quantifier's landmarks (antimeridian crossings in either direction, poles, interior):
           # every counterexample of a region job lies in that region, so a defect confined to one region is replayed there
           {'name': 'great-circle-symmetry-antimeridian-west', 'kind': 'gc', 'region': 'am-west'}, {'name': 'great-circle-symmetry-antimeridian-east', 'kind': 'gc', 'region': 'am-east'},
           {'name': 'great-circle-symmetry-interior', 'kind': 'gc', 'region': 'interior'}, {'name': 'great-circle-unit-sphere', 'kind': 'gc', 'region': 'interior', 'radius': 1.0},
           {'name': 'great-circle-radius-2.5-antimeridian', 'kind': 'gc', 'region': 'am-west', 'radius': 2.5}, {'name': 'great-circle-symmetry-pole', 'kind': 'gc', 'region': 'pole'},
           {'name': 'great-circle-range-rejection', 'kind': 'gc-range'},
           {'name': 'distance-dispatch', 'kind': 'dispatch'}]
    for i, r in enumerate(RADII):
        out.append({'name': 'circle-kernel-r%d' % i, 'kind': 'circle', 'radius': r})
    # cells exactly on the ellipse (Pythagorean offsets 3-4-5, 5-12-13, 8-15-17, 7-24-25 / 15-20-25): concrete radius and cell size, the comparison must be exact
    for i, (cx, cy, r) in enumerate(((1.0, 1.0, 5), (1.0, 1.0, 13), (0.5, 0.5, 6.5), (2.0, 1.0, 26), (1.0, 1.0, 17), (30.0, 30.0, '0.75km'),
                                   # decimal cell sizes whose float quotient and float floor-quotient differ (1.0 / 0.1 == 10.0 but 1.0 // 0.1 == 9.0; 0.9 / 0.3 vs 0.9 // 0.3)
                                   (0.1, 0.25, 1), (0.3, 0.1, 0.9))):
        out.append({'name': 'circle-kernel-on-the-circle-%d' % i, 'kind': 'circle-fixed', 'radius': r, 'cellsize': [cx, cy]})
    for ro in (2, 3):
        for ri in (0.5, 1):
            out.append({'name': 'annulus-kernel-%s-%s' % (ro, ri), 'kind': 'annulus', 'outer': ro, 'inner': ri})
    if tier != 'quick':
        # wider kernels (half-widths up to 6 per axis with symbolic cell sizes), more annuli, more on-the-circle kernels, antipodal region
        for i, r in enumerate((5, '7.5', 6)):
            out.append({'name': 'circle-kernel-wide-r%d' % i, 'kind': 'circle', 'radius': r, 'maxhalf': 6})
        for ro, ri in ((4, 1), (4, 2.5), (5, 3)):
            out.append({'name': 'annulus-kernel-%s-%s' % (ro, ri), 'kind': 'annulus', 'outer': ro, 'inner': ri, 'maxhalf': 5})
        for i, (cx, cy, r) in enumerate(((1.0, 1.0, 29), (1.0, 1.0, 37), (1.0, 2.0, 50), (0.25, 0.25, 10.25), (3.0, 3.0, 123), (1.0, 1.0, 65))):
            out.append({'name': 'circle-kernel-on-the-circle-t%d' % i, 'kind': 'circle-fixed', 'radius': r, 'cellsize': [cx, cy]})
        out.append({'name': 'great-circle-symmetry-antipodal', 'kind': 'gc', 'region': 'antipodal'})
        out.append({'name': 'great-circle-symmetry-equator', 'kind': 'gc', 'region': 'equator'})
    # exactly antipodal pairs with generic (non-integer) coordinates: concrete sweep, the distance must be half the circumference and never NaN
    out.append({'name': 'great-circle-antipodes-concrete-sweep', 'kind': 'gc-antipodes'})
    out.append({'name': 'unit-table', 'kind': 'units'})
    out.append({'name': 'distance-strings', 'kind': 'strings'})
    out.append({'name': 'calc-cellsize', 'kind': 'cellsize'})
    return out


def _pt(ctx, name, lo=None, hi=None):
    return ctx.real(name, lo=lo, hi=hi)


def body(ctx, job):
    kind = job['kind']
    if kind == 'euclid-tri':
        sc.set_axioms(sqrt_exact=True, sqrt_zero=False)
        p = [(_pt(ctx, 'x%d' % i), _pt(ctx, 'y%d' % i)) for i in range(3)]

        def d(a, b):
            return ctx.call('proximity:euclidean_distance', p[a][0], p[b][0], p[a][1], p[b][1])
        dab, dbc, dac = d(0, 1), d(1, 2), d(0, 2)
        ctx.observe('dac', dac)
        ctx.check('triangle-inequality', dac <= dab + dbc)
        return
    if kind == 'euclid':
        sc.set_axioms(sqrt_exact=True, sqrt_zero=True)
        p = [(_pt(ctx, 'x%d' % i, -1000, 1000), _pt(ctx, 'y%d' % i, -1000, 1000)) for i in range(2)]

        def d(a, b):
            return ctx.call('proximity:euclidean_distance', p[a][0], p[b][0], p[a][1], p[b][1])
        dab, dba, daa = d(0, 1), d(1, 0), d(0, 0)
        ctx.observe('dab', dab)
        ctx.check('symmetric', same(dab, dba))
        ctx.check('zero-on-coincident', daa == 0)
        ctx.check('zero-only-if-coincident', Implies(dab == 0, And(p[0][0] == p[1][0], p[0][1] == p[1][1])))
        ctx.check('non-negative', dab >= 0)
        ctx.check('pythagoras', ctx.close(dab * dab, (p[0][0] - p[1][0]) * (p[0][0] - p[1][0]) + (p[0][1] - p[1][1]) * (p[0][1] - p[1][1]), TOL64))
        return
    if kind == 'manhattan':
        sc.set_axioms()
        p = [(_pt(ctx, 'x%d' % i), _pt(ctx, 'y%d' % i)) for i in range(3)]

        def d(a, b):
            return ctx.call('proximity:manhattan_distance', p[a][0], p[b][0], p[a][1], p[b][1])
        dab, dba, dbc, dac, daa = d(0, 1), d(1, 0), d(1, 2), d(0, 2), d(0, 0)
        ctx.observe('dab', dab)
        ctx.check('symmetric', same(dab, dba))
        ctx.check('zero-on-coincident', daa == 0)
        ctx.check('zero-only-if-coincident', Implies(dab == 0, And(p[0][0] == p[1][0], p[0][1] == p[1][1])))
        ctx.check('formula', dab == abs(p[0][0] - p[1][0]) + abs(p[0][1] - p[1][1]))
        ctx.check('triangle-inequality', dac <= dab + dbc)
        return
    if kind in ('gc', 'gc-zero'):
        sc.set_axioms(sqrt_zero=True, sqrt_one=True, odd_even=True)
        x1, x2 = _pt(ctx, 'lon1', -180, 180), _pt(ctx, 'lon2', -180, 180)
        y1, y2 = _pt(ctx, 'lat1', -90, 90), _pt(ctx, 'lat2', -90, 90)
        region = job.get('region')
        if region == 'am-west':
            ctx.assume(And(x2 - x1 < -181, abs(y1) < 80, abs(y2) < 80, abs(y1 - y2) > 1))
        elif region == 'am-east':
            ctx.assume(And(x2 - x1 > 181, abs(y1) < 80, abs(y2) < 80, abs(y1 - y2) > 1))
        elif region == 'interior':
            ctx.assume(And(abs(x2 - x1) < 179, abs(x2 - x1) > 1, abs(y1) < 80, abs(y2) < 80, abs(y1 - y2) > 1))
        elif region == 'pole':
            ctx.assume(Or(y1 == 90, y1 == -90))
        elif region == 'antipodal':
            ctx.assume(And(abs(abs(x2 - x1) - 180) < 1, abs(y1 + y2) < 1, abs(y1) < 80))
        elif region == 'equator':
            ctx.assume(And(y1 == 0, y2 == 0, abs(x2 - x1) > 1))
        rad = job.get('radius')
        extra = (rad,) if rad is not None else ()
        Rj = rad if rad is not None else R
        d12 = ctx.call('proximity:great_circle_distance', x1, x2, y1, y2, *extra)
        ctx.observe('d12', d12)
        if kind == 'gc':
            d21 = ctx.call('proximity:great_circle_distance', x2, x1, y2, y1, *extra)
            d11 = ctx.call('proximity:great_circle_distance', x1, x1, y1, y1, *extra)
            ctx.check('symmetric', same(d12, d21))
            ctx.check('zero-on-coincident', d11 == 0)
            ctx.check('at-most-half-circumference', Implies(Not(isnan(d12)), And(d12 >= 0, d12 <= math.pi * Rj * (1 + 1e-12))))
        else:
            # the float constants pi/180 and pi/2 do not line up exactly: treat latitudes within 1e-9 degrees of a pole as the pole,
            # longitudes within 1e-9 degrees of a full turn apart as the same meridian
            pole = Or(And(y1 >= 90 - 1e-9, y2 >= 90 - 1e-9), And(y1 <= -90 + 1e-9, y2 <= -90 + 1e-9))
            same_meridian = Or(x1 == x2, abs(abs(x1 - x2) - 360) <= 1e-9)
            ctx.check('zero-only-if-coincident', Implies(d12 == 0, And(y1 == y2, Or(same_meridian, pole))),
                      info=lambda m: {'p1': [ctx.ev(m, x1), ctx.ev(m, y1)], 'p2': [ctx.ev(m, x2), ctx.ev(m, y2)], 'd': ctx.ev(m, d12)})
        return
    if kind == 'gc-antipodes':
        import random
        rnd = random.Random(12345)
        pts = [(rnd.uniform(-180, 0), rnd.uniform(-89, 89)) for _ in range(150)] + [(-74.13707509466566, 9.929847991185014), (-0.1, 0.1), (-179.9, -45.3)]
        for (lon, lat) in pts:
            d = ctx.call('proximity:great_circle_distance', lon, lon + 180.0, lat, -lat)
            d = sc.as_const(d) if sc.is_sym(d) else float(d)
            ctx.check('antipodal-distance-is-half-the-circumference', d == d and abs(d - math.pi * R) <= 1e-6 * R, info={'p': [lon, lat], 'd': d})
        return
    if kind == 'gc-range':
        sc.set_axioms()
        x1, x2, y1, y2 = (_pt(ctx, n, -400, 400) for n in ('lon1', 'lon2', 'lat1', 'lat2'))
        exc = ctx.raises(ctx.call, 'proximity:great_circle_distance', x1, x2, y1, y2)
        bad = Or(x1 > 180, x1 < -180, x2 > 180, x2 < -180, y1 > 90, y1 < -90, y2 > 90, y2 < -90)
        ctx.check('out-of-range-rejected', Implies(bad, exc == 'ValueError'))
        ctx.check('in-range-accepted', Implies(Not(bad), exc is None))
        return
    if kind == 'dispatch':
        sc.set_axioms(sqrt_exact=True)
        prox = ctx.lib('proximity') if ctx.mode != 'conc' else None
        x1, x2, y1, y2 = (_pt(ctx, n, -80, 80) for n in ('x1', 'x2', 'y1', 'y2'))
        E, M, G = (1, 2, 3) if prox is None else (prox.EUCLIDEAN, prox.MANHATTAN, prox.GREAT_CIRCLE)
        ctx.check('metric-constants', (E, M, G) == (1, 2, 3) or len({E, M, G}) == 3)
        de = ctx.call('proximity:_distance', x1, x2, y1, y2, E)
        dm = ctx.call('proximity:_distance', x1, x2, y1, y2, M)
        ctx.check('euclidean-dispatch', ctx.close(de * de, (x1 - x2) * (x1 - x2) + (y1 - y2) * (y1 - y2), (1e-5, 1e-6)))
        ctx.check('manhattan-dispatch', ctx.close(dm, abs(x1 - x2) + abs(y1 - y2), (1e-5, 1e-6)))
        return
    sc.set_axioms()
    if kind == 'circle':
        return body_circle(ctx, job)
    if kind == 'circle-fixed':
        return body_circle_fixed(ctx, job)
    if kind == 'annulus':
        return body_annulus(ctx, job)
    if kind == 'units':
        conv = ctx.lib('convolution') if ctx.mode != 'conc' else None
        table = {'meter': 1, 'meters': 1, 'm': 1, 'feet': 0.3048, 'foot': 0.3048, 'ft': 0.3048, 'miles': 1609.344, 'mls': 1609.344, 'ml': 1609.344,
                 'kilometer': 1000, 'kilometers': 1000, 'km': 1000}
        if conv is not None:
            ctx.check('unit-table', dict(conv.UNITS) == table)
        d = ctx.real('d', lo=0)
        for u, f in table.items():
            ctx.check('to-meters', ctx.close(ctx.call('convolution:_to_meters', d, u), d * f, TOL64))
        return
    if kind == 'strings':
        for s, want in GOOD_STRINGS:
            exc = ctx.raises(ctx.call, 'convolution:_get_distance', s)
            ctx.check('well-formed-distance-accepted', And(exc is None, exc is not None or ctx.close(ctx.last, want, TOL64)), info={'string': s, 'exception': exc})
        for s in BAD_STRINGS:
            exc = ctx.raises(ctx.call, 'convolution:_get_distance', s)
            ctx.check('malformed-or-non-positive-distance-rejected', exc == 'ValueError', info={'string': s, 'exception': exc})
        return
    if kind == 'cellsize':
        rx = ctx.real('res_x', lo=0.001, hi=1000)
        ry = ctx.real('res_y', lo=-1000, hi=1000)
        ctx.assume(ry != 0)
        for unit, f in (('km', 1000.0), ('ft', 0.3048), (None, 1.0), ('miles', 1609.344)):
            h, w = 3, 4
            ys = coords_affine(h, 5.0, ry)
            xs = coords_affine(w, 2.0, rx)
            attrs = {} if unit is None else {'unit': unit}
            agg = raster(symnp.zeros((h, w)), ys=ys, xs=xs, attrs=attrs)
            cx, cy = ctx.call('convolution:calc_cellsize', agg)
            ctx.check('cellsize-in-meters', And(ctx.close(cx, rx * f, TOL64), ctx.close(cy, abs(ry) * f, TOL64)))


def _half(ctx, r_m, cs, name):
    """the harness side of int(r / cellsize): the unique integer k with k*cs <= r < (k+1)*cs"""
    return None


def _radius_m(r):
    if isinstance(r, str):
        if r.endswith('km'):
            return float(r[:-2]) * 1000.0
        return float(r)
    return float(r)


def _check_ellipse(ctx, k, hw, hh, label, minus=None):
    """k[row, col] is 1 iff (x/hw)^2 + (y/hh)^2 <= 1 with x = col - hw (width axis) and y = row - hh (height axis)"""
    ok = tuple(k.shape) == (2 * hh + 1, 2 * hw + 1)
    ctx.check(label + '-odd-shape', ok and k.shape[0] % 2 == 1 and k.shape[1] % 2 == 1, info={'shape': list(k.shape), 'half_w': hw, 'half_h': hh})
    if not ok:
        return
    for row in range(2 * hh + 1):
        for col in range(2 * hw + 1):
            x, y = col - hw, row - hh
            inside = (x * hh) ** 2 + (y * hw) ** 2 <= (hw * hh) ** 2
            want = 1.0 if inside else 0.0
            if minus is not None:
                want -= minus(x, y)
            v = k[row, col]
            v = sc.as_const(v) if sc.is_sym(v) else float(v)
            ctx.check(label + '-is-ellipse-mask', v == want, info={'row': row, 'col': col, 'got': v, 'want': want, 'half_w': hw, 'half_h': hh})
            ctx.check(label + '-flip-symmetric', same(k[row, col], k[2 * hh - row, col]) and same(k[row, col], k[row, 2 * hw - col]))


def body_circle(ctx, job):
    r = job['radius']
    rm = _radius_m(r)
    mh = job.get('maxhalf', 3) + 0.9
    csx = ctx.real('cellsize_x', lo=rm / mh, hi=rm * 4)
    csy = ctx.real('cellsize_y', lo=rm / mh, hi=rm * 4)
    k = ctx.call('convolution:circle_kernel', csx, csy, r)
    ctx.observe('shape', list(k.shape))
    hh, hw = (k.shape[0] - 1) // 2, (k.shape[1] - 1) // 2
    # half-widths are the integer parts of radius / cellsize
    ctx.check('half-width-is-floor-of-radius-over-cellsize',
              And(hw * csx <= rm * (1 + 1e-12), (hw + 1) * csx > rm * (1 - 1e-12), hh * csy <= rm * (1 + 1e-12), (hh + 1) * csy > rm * (1 - 1e-12)),
              info=lambda m: {'shape': list(k.shape), 'cellsize_x': ctx.ev(m, csx), 'cellsize_y': ctx.ev(m, csy), 'radius_m': rm})
    _check_ellipse(ctx, k, hw, hh, 'circle')


def body_circle_fixed(ctx, job):
    r = job['radius']
    csx, csy = job['cellsize']
    k = ctx.call('convolution:circle_kernel', csx, csy, r)
    ctx.observe('kernel', k)
    rm = _radius_m(r)
    hw, hh = int(rm / csx), int(rm / csy)
    ctx.check('shape-is-odd-and-spans-the-radius', list(k.shape) == [2 * hh + 1, 2 * hw + 1], info={'shape': list(k.shape), 'want': [2 * hh + 1, 2 * hw + 1]})
    if list(k.shape) == [2 * hh + 1, 2 * hw + 1]:
        _check_ellipse(ctx, k, hw, hh, 'circle')


def body_annulus(ctx, job):
    ro, ri = job['outer'], job['inner']
    mh = job.get('maxhalf', 3) + 0.9
    csx = ctx.real('cellsize_x', lo=ro / mh, hi=ro * 2)
    csy = ctx.real('cellsize_y', lo=ro / mh, hi=ro * 2)
    k = ctx.call('convolution:annulus_kernel', csx, csy, ro, ri)
    outer = ctx.call('convolution:circle_kernel', csx, csy, ro)
    inner = ctx.call('convolution:circle_kernel', csx, csy, ri)
    ctx.observe('shape', list(k.shape))
    hh, hw = (outer.shape[0] - 1) // 2, (outer.shape[1] - 1) // 2
    ih, iw = (inner.shape[0] - 1) // 2, (inner.shape[1] - 1) // 2

    def inner_mask(x, y):
        if abs(x) > iw or abs(y) > ih:
            return 0.0
        return 1.0 if (x * ih) ** 2 + (y * iw) ** 2 <= (iw * ih) ** 2 else 0.0
    _check_ellipse(ctx, k, hw, hh, 'annulus', minus=inner_mask)
    for v in k.flat_values():
        v = sc.as_const(v) if sc.is_sym(v) else float(v)
        ctx.check('annulus-never-negative', v in (0.0, 1.0), info={'value': v})
