"""C15 Polygonize is lossless: rasterising the polygons gives back the raster."""
import math

import numpy as _np

from sx import symnp, symxr, core as sc
from sx.symnp import SymArray
from sx.harness import TOL64
from .common import raster, coords_affine, cells, And, Or, Not, Implies, ite, isnan, same, vals, Skip

ID = 'C15'
LEVEL = 'model_checking'
META = {
    'modules': ['experimental.polygonize'],
    'functions': ['xrspatial.experimental.polygonize.polygonize', '_polygonize_numpy', '_scan', '_calculate_regions', '_merge_regions', '_follow', '_is_close (generated_jit dispatch)',
                  '_transform_points'],
    'bounds': {'quick': 'rasters 1x1, 1x3, 3x1, 2x2, 2x3, 3x3 over the alphabet {-1.5, 0, 2} (float64; a negative member because the isclose tolerance is relative to |value|) / {7, 100000, 100001} (int32) with every cell symbolic and a symbolic mask (2x3), '
                        'connectivity 4 and 8, C and F memory order; a nested-hole 5x5 family with 4 symbolic cells; symbolic affine transform on 2x2',
               'thorough': '3x4, 2x5 and 4x4 binary rasters'},
    'stubs': ['numba.jit = identity', 'numba.extending.overload recorded and replaced by a two-stage dispatcher that calls the type generator with Integer / Float stand-ins derived from the operand dtype'],
    'outside': ['more than 16 cells', 'float values closer than the isclose tolerance but not equal (non-transitive)', 'awkward / geopandas / spatialpandas return types'],
    'assumptions': ['cell values come from a small alphabet whose members are farther apart than the isclose tolerance (floats)'],
    'budget_s': {'quick': 240, 'thorough': 1800},
}

NEST = [[1, 1, 1, 1, 1], [1, 0, 0, 0, 1], [1, 0, 1, 0, 1], [1, 0, 0, 0, 1], [1, 1, 1, 1, 1]]


def jobs(tier, seed):
    out = []
    for shp in ([1, 1], [1, 3], [3, 1], [2, 2], [2, 3], [3, 3]):
        for conn in (4, 8):
            out.append({'name': 'poly-%dx%d-c%d-float' % (shp[0], shp[1], conn), 'shape': shp, 'conn': conn, 'dtype': 'float64', 'domain': [-1.5, 0, 2] if shp != [3, 3] else [0, 1],
                        'mask': False, 'layout': 'C'})
    for conn in (4, 8):
        out.append({'name': 'poly-2x3-c%d-int' % conn, 'shape': [2, 3], 'conn': conn, 'dtype': 'int32', 'domain': [7, 100000, 100001], 'mask': False, 'layout': 'C'})
        out.append({'name': 'poly-2x3-c%d-masked' % conn, 'shape': [2, 3], 'conn': conn, 'dtype': 'float64', 'domain': [0, 1], 'mask': True, 'layout': 'C'})
        out.append({'name': 'poly-2x3-c%d-forder' % conn, 'shape': [2, 3], 'conn': conn, 'dtype': 'float64', 'domain': [-1.5, 0, 2], 'mask': True, 'layout': 'F'})
        out.append({'name': 'poly-3x2-c%d-forder-int' % conn, 'shape': [3, 2], 'conn': conn, 'dtype': 'int32', 'domain': [1, 2], 'mask': False, 'layout': 'F'})
        out.append({'name': 'poly-5x5-nested-c%d' % conn, 'shape': [5, 5], 'conn': conn, 'dtype': 'float64', 'domain': [0, 1], 'mask': False, 'layout': 'C', 'base': NEST,
                    'sym': [[1, 1], [2, 2], [0, 4], [3, 2]]})
    out.append({'name': 'poly-2x2-transform', 'shape': [2, 2], 'conn': 4, 'dtype': 'float64', 'domain': [0, 1], 'mask': False, 'layout': 'C', 'transform': True})
    out.append({'name': 'poly-invalid-arguments', 'shape': [2, 2], 'conn': 6, 'dtype': 'float64', 'domain': [0, 1], 'mask': False, 'layout': 'C'})
    if tier != 'quick':
        for shp in ([3, 4], [2, 5], [4, 4]):
            for conn in (4, 8):
                out.append({'name': 'poly-%dx%d-c%d-binary' % (shp[0], shp[1], conn), 'shape': shp, 'conn': conn, 'dtype': 'float64', 'domain': [0, 1], 'mask': False, 'layout': 'C'})
    return out


def _forder(arr):
    h, w = arr.shape
    idx = _np.arange(h * w).reshape(w, h).T
    buf = [None] * (h * w)
    for (y, x) in cells((h, w)):
        buf[int(idx[y, x])] = arr[y, x]
    a = SymArray(buf, idx, arr.dtype)
    a._sx_layout = 'F'
    return a


def _area2(pts):
    return sum(pts[i][0] * pts[i + 1][1] - pts[i + 1][0] * pts[i][1] for i in range(len(pts) - 1))


def _inside(pts, px, py):
    """even-odd rule for an axis-parallel ring; (px, py) is never on an edge (cell centres)"""
    c = False
    for i in range(len(pts) - 1):
        (x1, y1), (x2, y2) = pts[i], pts[i + 1]
        if (y1 > py) != (y2 > py):
            xint = x1 + (py - y1) * (x2 - x1) / (y2 - y1)
            if px < xint:
                c = not c
    return c


def _ring(arr):
    a = arr
    n = a.shape[0]
    out = []
    for i in range(n):
        p = [a[i, 0], a[i, 1]]
        out.append([(sc.as_const(v) if sc.is_sym(v) else float(v)) for v in p])
    return out


def body(ctx, job):
    sc.set_axioms()
    h, w = job['shape']
    dt = job['dtype']
    dom = job['domain']
    if job.get('base'):
        data = symnp.asarray(job['base'], dt).copy()
        for (y, x) in job['sym']:
            data[y, x] = ctx.real('d_%d_%d' % (y, x)) if dt.startswith('float') else ctx.integer('d_%d_%d' % (y, x), min(dom), max(dom))
    else:
        data = ctx.array('d', (h, w), dt, nan=False, lo=min(dom), hi=max(dom)) if not dt.startswith('float') else ctx.array('d', (h, w), dt, nan=False)
    for v in data.flat_values():
        if sc.is_sym(v):
            ctx.assume(Or(*[v == k for k in dom]))
    mask = None
    if job['mask']:
        mask = ctx.array('m', (h, w), 'bool')
    if job['layout'] == 'F':
        data = _forder(data)
        if mask is not None:
            mask = _forder(mask)
    ys = coords_affine(h, 0.0, 1.0)
    xs = coords_affine(w, 0.0, 1.0)
    agg = symxr.DataArray(data, dims=('y', 'x'), coords={'y': ys, 'x': xs}, name='r')
    magg = symxr.DataArray(mask, dims=('y', 'x'), coords={'y': ys, 'x': xs}, name='m') if mask is not None else None
    if job['conn'] not in (4, 8):
        exc = ctx.raises(ctx.call, 'experimental.polygonize:polygonize', agg, None, job['conn'])
        ctx.check('invalid-connectivity-rejected', exc == 'ValueError')
        exc = ctx.raises(ctx.call, 'experimental.polygonize:polygonize', agg, None, 4, [1.0, 0.0, 0.0])
        ctx.check('bad-transform-length-rejected', exc == 'ValueError')
        exc = ctx.raises(ctx.call, 'experimental.polygonize:polygonize', agg, None, 4, None, 'DN', 'shapefile')
        ctx.check('invalid-return-type-rejected', exc == 'ValueError')
        return
    column, polys = ctx.call('experimental.polygonize:polygonize', agg, magg, job['conn'])
    rings = [[_ring(r) for r in p] for p in polys]
    ctx.observe('npolygons', len(rings))
    ctx.observe('rings', rings)
    if job.get('transform'):
        T = [ctx.real('t%d' % i, lo=-4, hi=4) for i in range(6)]
        column2, polys2 = ctx.call('experimental.polygonize:polygonize', agg, magg, job['conn'], T)
        ok = len(polys2) == len(polys) and all(len(a) == len(b) for a, b in zip(polys, polys2))
        ctx.check('transform-keeps-structure', ok)
        if ok:
            for p, p2 in zip(polys, polys2):
                for r, r2 in zip(p, p2):
                    for i in range(r.shape[0]):
                        x, y = r[i, 0], r[i, 1]
                        ctx.check('transform-applied-to-every-vertex', And(ctx.close(r2[i, 0], T[0] * x + T[1] * y + T[2], TOL64), ctx.close(r2[i, 1], T[3] * x + T[4] * y + T[5], TOL64)))
    # ---- reference components (flood fill over unmasked cells; equalities / mask bits decided per path)
    cs = cells((h, w))
    masked_in = {c: (True if mask is None else bool(mask[c])) for c in cs}
    comp = {}
    comps = []
    for c in cs:
        if not masked_in[c] or c in comp:
            continue
        k = len(comps)
        stack = [c]
        comp[c] = k
        members = [c]
        while stack:
            (y, x) = stack.pop()
            for dy in (-1, 0, 1):
                for dx in (-1, 0, 1):
                    if (dy == 0 and dx == 0) or (job['conn'] == 4 and dy and dx):
                        continue
                    q = (y + dy, x + dx)
                    if q in masked_in and masked_in[q] and q not in comp and bool(data[(y, x)] == data[q]):
                        comp[q] = k
                        members.append(q)
                        stack.append(q)
        comps.append(members)
    info = {'rings': rings, 'components': [[list(c) for c in m] for m in comps]}
    ctx.check('one-polygon-per-connected-region', len(rings) == len(comps) and len(column) == len(rings), info=info)
    # ---- ring geometry
    geom_ok = True
    for p in rings:
        for ri, r in enumerate(p):
            closed = len(r) >= 5 and r[0] == r[-1]
            lattice = all(float(v) == int(v) for pt in r for v in pt)
            axis = all((a[0] == b[0]) != (a[1] == b[1]) for a, b in zip(r[:-1], r[1:]))
            a2 = _area2(r) if closed else 0
            orient = (a2 > 0) if ri == 0 else (a2 < 0)
            geom_ok = geom_ok and closed and lattice and axis and orient
    ctx.check('rings-closed-lattice-axis-parallel-oriented', geom_ok, info=info)
    if not geom_ok:
        return
    # ---- rasterise back
    owner = {}
    for c in cs:
        (y, x) = c
        px, py = x + 0.5, y + 0.5
        hits = [k for k, p in enumerate(rings) if _inside(p[0], px, py) and not any(_inside(hr, px, py) for hr in p[1:])]
        owner[c] = hits
    for c in cs:
        if not masked_in[c]:
            ctx.check('masked-cell-in-no-polygon', owner[c] == [], info=dict(info, cell=list(c)))
        else:
            ok = len(owner[c]) == 1
            ctx.check('cell-in-exactly-one-polygon', ok, info=dict(info, cell=list(c), hits=owner[c]))
            if ok and owner[c][0] < len(column):
                ctx.check('polygon-value-is-cell-value', same(column[owner[c][0]], data[c]),
                          info=lambda m, c=c: dict(info, cell=list(c), polygon_value=ctx.ev(m, column[owner[c][0]]), cell_value=ctx.ev(m, data[c])))
    for k, p in enumerate(rings):
        ncell = sum(1 for c in cs if owner[c] == [k])
        area = (_area2(p[0]) + sum(_area2(hr) for hr in p[1:])) / 2.0
        ctx.check('area-equals-cell-count', abs(area - ncell) < 1e-9, info=dict(info, polygon=k, area=area, cells=ncell))
    # polygons <-> components one to one
    sets = sorted(sorted(c for c in cs if owner[c] == [k]) for k in range(len(rings)))
    ctx.check('polygons-are-the-connected-regions', sets == sorted(sorted(m) for m in comps), info=info)
