"""C09 Focal results are statistics of exactly the cells under the kernel."""
import math

from sx import symnp, core as sc, userfuncs
from sx.harness import TOL32, TOL64
from .common import raster, coords_affine, cells, And, Or, Not, Implies, ite, isnan, same, vals, Skip, Sum

ID = 'C09'
LEVEL = 'model_checking'
META = {
    'modules': ['focal', 'convolution', 'utils'],
    'functions': ['xrspatial.focal.' + f for f in ('mean', '_mean_numpy', '_equal_numpy', 'apply', '_apply_numpy', 'focal_stats', '_focal_stats_cpu', 'hotspots',
                                                   '_hotspots_numpy', '_calc_hotspots_numpy', '_calc_mean', '_calc_sum', '_calc_min', '_calc_max', '_calc_std',
                                                   '_calc_var', '_calc_range')] +
                 ['xrspatial.convolution.convolution_2d', 'xrspatial.convolution._convolve_2d_numpy', 'xrspatial.convolution.custom_kernel'],
    'bounds': {'quick': 'rasters 3x3 / 3x4 / 2x4 (NaN allowed); apply: kernel entries symbolic in {0,1} for shapes 3x3, 1x3, 3x1, 3x5 (kernel wider than the raster '
                        'included) - all 0/1 masks of a shape in one run; reducers mean, sum, min, max, range, var, std and two position-sensitive user reducers; '
                        'focal mean: 2x3, passes 0..2, excludes [nan], [e], [nan, e]; convolution: symbolic weights 3x3, 1x3, 3x1; hotspots: 3x4 and 2x4; int32 / uint8 rasters for apply, focal_stats, mean (1 pass) and convolution_2d',
               'thorough': 'plus 4x4 rasters, 5x3 kernels, passes 3'},
    'stubs': ['numba.jit = identity, prange = range', 'np.nan* reductions = ite-folding over NaN flags', 'sqrt Ackermannised (s>=0, s*s==x for the std claim)'],
    'outside': ['float32 rounding of sums', 'CUDA paths', 'rasters / kernels larger than the bound'],
    'assumptions': ['exact real arithmetic with NaN propagation', 'hotspots: global standard deviation > 0 (the numpy path raises otherwise; asserted separately)'],
    'budget_s': {'quick': 200, 'thorough': 1500},
}

STATS = ('mean', 'sum', 'min', 'max', 'range', 'var', 'std')


def jobs(tier, seed):
    out = []
    for st in STATS:
        out.append({'name': 'apply-%s-3x3kernel' % st, 'kind': 'apply', 'stat': st, 'shape': [2, 2] if st == 'range' else [3, 3], 'kshape': [3, 3]})
    for ks in ([1, 3], [3, 1], [3, 5]) + (([5, 3],) if tier != 'quick' else ()):
        out.append({'name': 'apply-posweighted-%dx%dkernel' % (ks[0], ks[1]), 'kind': 'apply', 'stat': 'pos_weighted_sum', 'shape': [3, 4], 'kshape': ks})
    out.append({'name': 'apply-countvalid-3x3kernel', 'kind': 'apply', 'stat': 'count_valid', 'shape': [3, 3], 'kshape': [3, 3]})
    out.append({'name': 'focal_stats-stack', 'kind': 'focal_stats', 'shape': [2, 3]})
    for passes in ((0, 1, 2) if tier == 'quick' else (0, 1, 2, 3)):
        for ex in ('default', 'value', 'nan+value'):
            if passes == 0 and ex != 'default':
                continue
            big = tier != 'quick' or (passes <= 1 and ex != 'nan+value')
            out.append({'name': 'mean-passes%d-%s' % (passes, ex), 'kind': 'mean', 'shape': [2, 3] if big else [2, 2], 'passes': passes, 'excludes': ex})
    for ks, shp in (([3, 3], [4, 4]), ([1, 3], [3, 4]), ([3, 1], [4, 3])):
        out.append({'name': 'convolution-%dx%dkernel' % (ks[0], ks[1]), 'kind': 'conv', 'shape': shp, 'kshape': ks})
    # integer rasters
    out.append({'name': 'apply-posweighted-3x3kernel-int32', 'kind': 'apply', 'stat': 'pos_weighted_sum', 'shape': [3, 3], 'kshape': [3, 3], 'dtype': 'int32'})
    out.append({'name': 'apply-max-3x3kernel-uint8', 'kind': 'apply', 'stat': 'max', 'shape': [2, 3], 'kshape': [3, 3], 'dtype': 'uint8'})
    out.append({'name': 'focal_stats-stack-int32', 'kind': 'focal_stats', 'shape': [2, 2], 'dtype': 'int32'})
    out.append({'name': 'mean-passes1-default-int32', 'kind': 'mean', 'shape': [2, 3], 'passes': 1, 'excludes': 'default', 'dtype': 'int32'})
    out.append({'name': 'convolution-3x3kernel-int32', 'kind': 'conv', 'shape': [3, 4], 'kshape': [3, 3], 'dtype': 'int32'})
    out.append({'name': 'hotspots-classification-of-z', 'kind': 'hotspots-z', 'shape': [2, 2]})
    out.append({'name': 'hotspots-3x1-3x1kernel', 'kind': 'hotspots', 'shape': [3, 1], 'kshape': [3, 1], 'full': True})
    out.append({'name': 'hotspots-1x4-1x3kernel-sign', 'kind': 'hotspots', 'shape': [1, 4], 'kshape': [1, 3], 'full': False})
    if tier != 'quick':
        out.append({'name': 'hotspots-3x3-sign', 'kind': 'hotspots', 'shape': [3, 3], 'kshape': [3, 3], 'full': False})
        out.append({'name': 'hotspots-3x3', 'kind': 'hotspots', 'shape': [3, 3], 'kshape': [3, 3], 'full': True})
        out.append({'name': 'hotspots-1x4-1x3kernel', 'kind': 'hotspots', 'shape': [1, 4], 'kshape': [1, 3], 'full': True})
    out.append({'name': 'hotspots-zero-std', 'kind': 'hotspots-zero', 'shape': [3, 3], 'kshape': [3, 3]})
    out.append({'name': 'kernel-validation', 'kind': 'kernel-validation'})
    return out


def _window(data, y, x, kshape, kernel=None):
    """[(value, selected B)] for the clipped window centred on (y, x), row-major over the kernel"""
    h, w = data.shape
    kr, kc = kshape
    out = []
    for i in range(kr):
        for j in range(kc):
            yy, xx = y + i - kr // 2, x + j - kc // 2
            if 0 <= yy < h and 0 <= xx < w:
                sel = True if kernel is None else (kernel[i, j] == 1)
                out.append((i * kc + j, data[yy, xx], sel))
            else:
                out.append((i * kc + j, None, False))
    return out


def _stat_ref(stat, win):
    items = [(pos, v, And(sel, Not(isnan(v)))) for (pos, v, sel) in win if v is not None]
    cnt = Sum([ite(ok, 1, 0) for _, _, ok in items])
    sm = Sum([ite(ok, v, 0.0) for _, v, ok in items])
    if stat == 'count_valid':
        return ('exact', cnt)
    if stat == 'pos_weighted_sum':
        return ('close', Sum([ite(ok, (pos + 1) * v, 0.0) for pos, v, ok in items]))
    if stat == 'sum':
        return ('close', sm)
    if stat == 'mean':
        return ('ratio', (sm, cnt))
    if stat in ('min', 'max', 'range'):
        return (stat, items)
    if stat in ('var', 'std'):
        sq = Sum([ite(ok, v * v, 0.0) for _, v, ok in items])
        return (stat, (sq, sm, cnt))
    raise KeyError(stat)


def _check_stat(ctx, label, got, stat, win, info=None):
    kind, ref = _stat_ref(stat, win)
    if kind == 'exact':
        ctx.check(label, got == ref, info)
    elif kind == 'close':
        ctx.check(label, ctx.close(got, ref, TOL32), info)
    elif kind == 'ratio':
        sm, cnt = ref
        ctx.check(label, Or(And(cnt == 0, isnan(got)), And(cnt != 0, ctx.close(got * cnt, sm, TOL32))), info)
    elif kind in ('min', 'max', 'range'):
        items = ref
        anyv = Or(*[ok for _, _, ok in items]) if items else False

        def extreme(g, mode):
            bound = And(*[Implies(ok, (g <= v) if mode == 'min' else (g >= v)) for _, v, ok in items])
            att = Or(*[And(ok, g == v) for _, v, ok in items]) if items else False
            return And(bound, att)
        if kind == 'range':
            # got = max - min for some attained max and min
            cands = [(a, b) for a in items for b in items]
            ok = Or(*[And(a[2], b[2], ctx.close(got, a[1] - b[1], TOL32),
                          And(*[Implies(o, And(v <= a[1], v >= b[1])) for _, v, o in items])) for a, b in cands]) if cands else False
            ctx.check(label, Or(And(Not(anyv), isnan(got)), And(anyv, ok)), info)
        else:
            ctx.check(label, Or(And(Not(anyv), isnan(got)), And(anyv, extreme(got, kind))), info)
    else:
        sq, sm, cnt = ref
        # population variance: (sum x^2 - (sum x)^2 / n) / n   <=>   var * n^2 == n * sq - sm^2
        if kind == 'var':
            ctx.check(label, Or(And(cnt == 0, isnan(got)), And(cnt != 0, ctx.close(got * cnt * cnt, cnt * sq - sm * sm, TOL32))), info)
        else:
            ctx.check(label, Or(And(cnt == 0, isnan(got)), And(cnt != 0, got >= 0, ctx.close(got * got * cnt * cnt, cnt * sq - sm * sm, TOL32))), info)


def body(ctx, job):
    kind = job['kind']
    sc.set_axioms(sqrt_exact=(job.get('stat') == 'std' or kind == 'focal_stats'), congruence='syntactic' if kind in ('apply', 'focal_stats') else 'full')
    if kind == 'kernel-validation':
        agg = raster(ctx.array('d', (3, 3), 'float64'), name='a')
        for shp in ((2, 3), (3, 2), (2, 2), (4, 4)):
            exc = ctx.raises(ctx.call, 'focal:apply', agg, symnp.ones(shp))
            ctx.check('even-kernel-rejected', exc == 'ValueError')
            exc = ctx.raises(ctx.call, 'convolution:custom_kernel', symnp.ones(shp))
            ctx.check('even-kernel-rejected', exc == 'ValueError')
        for shp in ((1, 1), (1, 3), (5, 3)):
            exc = ctx.raises(ctx.call, 'convolution:custom_kernel', symnp.ones(shp))
            ctx.check('odd-kernel-accepted', exc is None)
        exc = ctx.raises(ctx.call, 'focal:apply', agg, [[1, 1, 1]])
        ctx.check('non-array-kernel-rejected', exc == 'ValueError')
        exc = ctx.raises(ctx.call, 'focal:focal_stats', agg, [[1, 1, 1]])
        ctx.check('non-array-kernel-rejected', exc == 'ValueError')
        return
    h, w = job['shape']
    if kind == 'apply':
        return body_apply(ctx, job)
    dt = job.get('dtype', 'float64')
    ikw = {'lo': 0 if dt[0] == 'u' else -4, 'hi': 4} if dt[0] in 'iu' else {}
    if kind == 'focal_stats':
        d = ctx.array('d', (h, w), dt, nan=False, **ikw)
        agg = raster(d, name='a', attrs={'res': 1})
        kernel = symnp.asarray([[0, 1, 0], [1, 1, 1], [0, 1, 0]], 'float64')
        order = ['sum', 'min', 'mean', 'var', 'max', 'range', 'std']
        res = ctx.call('focal:focal_stats', agg, kernel, order)
        out = vals(res)
        labels = list(res.coords['stats'].data.flat_values())
        ctx.check('stats-stacked-in-requested-order', And(labels == order, out.shape == (len(order), h, w), tuple(res.dims) == ('stats', 'y', 'x')))
        ctx.observe('out', out)
        for si, st in enumerate(order):
            for (y, x) in cells((h, w)):
                _check_stat(ctx, 'focal_stats-' + st, out[si, y, x], st, _window(d, y, x, (3, 3), kernel))
        return
    if kind == 'mean':
        return body_mean(ctx, job)
    if kind == 'conv':
        kr, kc = job['kshape']
        d = ctx.array('d', (h, w), dt, nan=True, **ikw)
        k = ctx.array('k', (kr, kc), 'float64', nan=False)
        agg = raster(d, name='a', attrs={'res': 1})
        res = ctx.call('convolution:convolution_2d', agg, k)
        out = vals(res)
        ctx.observe('out', out)
        for (y, x) in cells((h, w)):
            inside = kr // 2 <= y < h - kr // 2 and kc // 2 <= x < w - kc // 2
            if not inside:
                ctx.check('nan-where-window-leaves-raster', isnan(out[y, x]))
            else:
                ref = Sum([k[i, j] * d[y + i - kr // 2, x + j - kc // 2] for i in range(kr) for j in range(kc)])
                ctx.check('kernel-weighted-sum', ctx.close(out[y, x], ref, TOL32))
        return
    if kind == 'hotspots-zero':
        c = ctx.real('c')
        d = symnp.full((h, w), c, 'float64')
        agg = raster(d, name='a', attrs={'res': 1})
        exc = ctx.raises(ctx.call, 'focal:hotspots', agg, symnp.ones((3, 3)))
        ctx.check('zero-global-std-raises', exc == 'ZeroDivisionError')
        return
    if kind == 'hotspots':
        return body_hotspots(ctx, job)
    if kind == 'hotspots-z':
        z = ctx.array('z', (h, w), 'float32', nan=True)
        out = ctx.call('focal:_calc_hotspots_numpy', z)
        ctx.observe('out', out)
        for c in cells((h, w)):
            v = z[c]
            a = abs(v)
            conf = ite(a > 2.58, 99, ite(a > 1.96, 95, ite(a > 1.65, 90, 0)))
            want = ite(isnan(v), 0, ite(v > 0, conf, ite(v < 0, -conf, 0)))
            ctx.check('class-of-z-score', out[c] == want, info=lambda m, c=c: {'z': ctx.ev(m, z[c]), 'got': ctx.ev(m, out[c])})


def body_apply(ctx, job):
    h, w = job['shape']
    kr, kc = job['kshape']
    stat = job['stat']
    dt = job.get('dtype', 'float64')
    d = ctx.array('d', (h, w), dt, nan=stat not in ('var', 'std'), **({'lo': 0 if dt[0] == 'u' else -4, 'hi': 4} if dt[0] in 'iu' else {}))
    if stat in ('var', 'std'):
        # variance claims are polynomial identities: concrete footprint and NaN-free data keep the cell count concrete
        k = symnp.asarray([[0, 1, 0], [1, 1, 1], [0, 1, 1]], 'float64')
    else:
        k = ctx.array('k', (kr, kc), 'float64', nan=False)
        for v in k.flat_values():
            ctx.assume(Or(v == 0, v == 1))
    agg = raster(d, name='a', attrs={'res': 1})
    if stat in ('pos_weighted_sum', 'count_valid'):
        res = ctx.call('focal:apply', agg, k, getattr(userfuncs, stat))
    else:
        fm = ctx.lib('focal') if ctx.mode != 'conc' else None
        func = getattr(fm, '_calc_' + stat) if fm is not None else {'__sx_lib_func__': 'focal._calc_' + stat}
        res = ctx.call('focal:apply', agg, k, func) if stat != 'mean' else ctx.call('focal:apply', agg, k)
    out = vals(res)
    ctx.observe('out', out)
    ctx.check('identity', And(out.shape == (h, w), res.dims == agg.dims, res.attrs == agg.attrs))
    for (y, x) in cells((h, w)):
        _check_stat(ctx, 'apply-' + stat, out[y, x], stat, _window(d, y, x, (kr, kc), k),
                    info=lambda m, y=y, x=x: {'cell': [y, x], 'got': ctx.ev(m, out[y, x]), 'kernel': [ctx.ev(m, v) for v in k.flat_values()],
                                              'data': [ctx.ev(m, v) for v in d.flat_values()]})


def body_mean(ctx, job):
    h, w = job['shape']
    passes = job['passes']
    dt = job.get('dtype', 'float64')
    d = ctx.array('d', (h, w), dt, nan=True, **({'lo': -4, 'hi': 4} if dt[0] in 'iu' else {}))
    agg = raster(d, name='a', attrs={'res': 1})
    mode = job['excludes']
    if mode == 'default':
        res = ctx.call('focal:mean', agg, passes)
        ex_nan, ex_vals = True, []
    else:
        e = ctx.real('e')
        ex_vals = [e]
        ex_nan = mode == 'nan+value'
        res = ctx.call('focal:mean', agg, passes, ([math.nan] if ex_nan else []) + [e])
    out = vals(res)
    ctx.observe('out', out)
    cur = [[d[y, x] for x in range(w)] for y in range(h)]
    for _ in range(passes):
        nxt = [[None] * w for _ in range(h)]
        for y in range(h):
            for x in range(w):
                v = cur[y][x]
                excluded = Or(And(ex_nan, isnan(v)), *[v == q for q in ex_vals])
                win = [cur[yy][xx] for yy in range(max(y - 1, 0), min(y + 2, h)) for xx in range(max(x - 1, 0), min(x + 2, w))]
                cnt = Sum([ite(isnan(q), 0, 1) for q in win])
                sm = Sum([ite(isnan(q), 0.0, q) for q in win])
                mean = math.nan
                for c in range(len(win), 0, -1):
                    mean = ite(cnt == c, sm / c, mean)
                nxt[y][x] = ite(excluded, v, mean)
        cur = nxt
    for (y, x) in cells((h, w)):
        ctx.check('mean-of-3x3-window-excluded-passed-through', ctx.close(out[y, x], cur[y][x], TOL32),
                  info=lambda m, y=y, x=x: {'cell': [y, x], 'got': ctx.ev(m, out[y, x]), 'want': ctx.ev(m, cur[y][x]), 'data': [ctx.ev(m, v) for v in d.flat_values()]})


def body_hotspots(ctx, job):
    h, w = job['shape']
    kr, kc = job['kshape']
    d = ctx.array('d', (h, w), 'float64', nan=False)
    agg = raster(d, name='a', attrs={'res': 1, 'unit': 'm'})
    kernel = symnp.ones((kr, kc), 'float64')
    exc = ctx.raises(ctx.call, 'focal:hotspots', agg, kernel)
    dl = d.flat_values()
    n = len(dl)
    gm = Sum(dl) / n
    var = Sum([(v - gm) * (v - gm) for v in dl]) / n
    if ctx.mode == 'sym':
        # lemma handed to the solver: a population variance (a sum of squares) is never negative.  It spares nlsat from
        # re-deriving this for the expanded polynomial that appears under the square root.
        ctx.assume(sc.mkbool(sc.canon(var.v) >= 0))
    if exc is not None:
        ctx.check('raises-only-for-zero-std', And(exc == 'ZeroDivisionError', var == 0))
        return
    res = ctx.last
    out = vals(res)
    ctx.observe('out', out)
    ctx.check('attrs-copied-unit-percent', And(res.attrs.get('unit') == '%', agg.attrs.get('unit') == 'm'))
    neg = vals(ctx.call('focal:hotspots', raster(-d, name='a', attrs={'res': 1}), kernel))
    ks = kr * kc
    for (y, x) in cells((h, w)):
        o = out[y, x]
        ctx.check('value-set', Or(*[o == c for c in (0, 90, 95, 99, -90, -95, -99)]))
        ctx.check('negation-symmetry', neg[y, x] == -o)
        inside = kr // 2 <= y < h - kr // 2 and kc // 2 <= x < w - kc // 2
        if not inside:
            ctx.check('border-zero', o == 0)
            continue
        wm = Sum([d[y + i - kr // 2, x + j - kc // 2] for i in range(kr) for j in range(kc)]) / ks
        diff = wm - gm
        ad = abs(diff)
        gstd = symnp.sqrt(var)      # the global standard deviation (> 0 on this path)
        # |z| > t  <=>  |diff| > t * std
        def above(t):
            return ad > t * gstd
        conf = ite(above(2.58), 99, ite(above(1.96), 95, ite(above(1.65), 90, 0)))
        want = ite(diff > 0, conf, ite(diff < 0, -conf, 0))
        # the implementation's window mean uses the float weights 1/ks (relative error ~1e-16) while the reference is exact:
        # decisions closer than eps (scaled by the data magnitude) to a threshold or to zero are ties outside the claim
        eps = 1e-9 * Sum([abs(v) for v in dl]) + 1e-12
        near = Or(ad <= eps, *[And(ad >= t * gstd - eps, ad <= t * gstd + eps) for t in (1.65, 1.96, 2.58)])
        ctx.check('sign-follows-neighbourhood-mean', And(Implies(o > 0, diff > -eps), Implies(o < 0, diff < eps)))
        if not job.get('full'):
            continue
        ctx.check('z-score-class', Or(near, o == want),
                  info=lambda m, y=y, x=x, o=o, want=want: {'cell': [y, x], 'got': ctx.ev(m, o), 'want': ctx.ev(m, want), 'data': [ctx.ev(m, v) for v in dl]})
