"""C11 Results depend only on the arguments, not on earlier calls (Python-level state)."""
import itertools
import math

import numpy as _np

from sx import symnp, symxr, symda, core as sc, userfuncs
from sx.symnp import SymArray
from sx.harness import TOL32
from .common import raster, coords_affine, cells, And, Or, Not, Implies, ite, isnan, same, vals, Skip, pick

ID = 'C11'
LEVEL = 'model_checking'
META = {
    'modules': ['proximity', 'focal', 'convolution', 'zonal', 'classify', 'perlin', 'pathfinding', 'utils', 'experimental.polygonize'],
    'functions': ['proximity / allocation / direction', 'focal.mean / apply / hotspots', 'convolution.circle_kernel / annulus_kernel / convolution_2d', 'zonal.stats / crosstab / regions',
                  'classify.natural_breaks (sampling branch) / quantile / reclassify', 'perlin.perlin', 'pathfinding.a_star_search', 'experimental.polygonize.polygonize'],
    'bounds': {'quick': 'ordered pairs (earlier call A, probed call B) from a catalogue of 30 calls that differ in parameters (targets, max_distance, metric, output mode, kernel shape, k, '
                        'num_sample, dtype, seed) on 2x3 / 3x3 rasters whose cells are symbolic: B after A (and B repeated) in one loaded module set versus B alone in a freshly loaded module '
                        'set with a fresh global RNG (seeded third of the pairs at the quick tier, all probes repeated); frame condition: module-level containers, function defaults and the '
                        'global RNG state compared before / after every call',
               'thorough': 'all ordered pairs and histories of two earlier calls'},
    'stubs': ['a "fresh interpreter" is a freshly loaded module set (sx.loader.fresh_instance) with its own global numpy RNG; on replay it is a new /venv worker process',
              'functools.lru_cache and every other pure-Python cache run for real'],
    'outside': ['numba compile-time freezing of globals / closure cells and its dispatcher cache (numba is stubbed out in the symbolic run; replay does run the real JIT, once per counterexample)',
                'data races from thread counts', 'dask scheduler timing', 'process state below the Python object level'],
    'assumptions': ['Python-level state only'],
    'replay_samples': {'quick': 3, 'thorough': 8},
    'budget_s': {'quick': 280, 'thorough': 2400},
}

CALLS = ['prox-inf', 'prox-maxd', 'prox-maxd2', 'prox-targets', 'prox-manhattan', 'alloc-targets', 'direction-maxd', 'mean-1', 'mean-excl', 'apply-3x3', 'apply-1x3', 'circle-2', 'circle-3',
         'annulus-2-1', 'annulus-3-1', 'conv-annulus', 'stats-default', 'stats-subset', 'crosstab', 'nb-sample-k2', 'nb-sample-k3', 'nb-full', 'quantile', 'perlin-5', 'perlin-9',
         'astar-barrier', 'astar-free', 'regions-8', 'polygonize-int', 'polygonize-float', 'crosstab3d-same-objects', 'nb-full-same-objects', 'mean0-same-objects']


def jobs(tier, seed):
    out = []
    pairs = [(a, b) for a in CALLS for b in CALLS]
    always = [i for i, (a, b) in enumerate(pairs) if a == b or (a.split('-')[0] == b.split('-')[0])]
    sel = pick(pairs, 170 if tier == 'quick' else len(pairs), seed, always=always) if tier == 'quick' else pairs
    for (a, b) in sel:
        out.append({'name': '%s--then--%s' % (a, b), 'history': [a], 'probe': b})
    if tier != 'quick':
        trip = [(a, b, c) for a in CALLS for b in CALLS for c in CALLS]
        for (a, b, c) in pick(trip, 400, seed + 1):
            out.append({'name': '%s--%s--then--%s' % (a, b, c), 'history': [a, b], 'probe': c})
    return out


def _flat(o):
    """comparable flat list of scalars from any result"""
    if isinstance(o, symxr.DataArray):
        o = o.data
    if isinstance(o, symda.Array):
        o = o.compute()
    if isinstance(o, SymArray):
        return list(o.flat_values())
    if isinstance(o, (list, tuple)):
        out = []
        for x in o:
            out += _flat(x)
        return out
    if hasattr(o, 'columns') and hasattr(o, '_d'):
        out = []
        for c in o.columns:
            out += list(o[c].vals)
        return out
    if isinstance(o, dict):
        out = []
        for k in o:
            out += _flat(o[k])
        return out
    return [o]


def _run(ses, name, env):
    d, d2, ys, xs = env['d'], env['d2'], env['ys'], env['xs']

    def R(data, **kw):
        return raster(data.copy(), ys=ys, xs=xs, attrs={'res': (1.0, 1.0)}, **kw)
    if name == 'prox-inf':
        return ses.call('proximity:proximity', R(d), 'x', 'y')
    if name == 'prox-maxd':
        return ses.call('proximity:proximity', R(d), 'x', 'y', [], env['maxd'])
    if name == 'prox-maxd2':
        return ses.call('proximity:proximity', R(d), 'x', 'y', [], 2.5)
    if name == 'prox-targets':
        return ses.call('proximity:proximity', R(d), 'x', 'y', [env['tv']])
    if name == 'prox-manhattan':
        return ses.call('proximity:proximity', R(d), 'x', 'y', [], 2.0, 'MANHATTAN')
    if name == 'alloc-targets':
        return ses.call('proximity:allocation', R(d), 'x', 'y', [env['tv'], 3.0])
    if name == 'direction-maxd':
        return ses.call('proximity:direction', R(d), 'x', 'y', [], 1.5)
    if name == 'mean-1':
        return ses.call('focal:mean', R(d2), 1)
    if name == 'mean-excl':
        return ses.call('focal:mean', R(d2), 2, [2.0])
    if name == 'apply-3x3':
        return ses.call('focal:apply', R(d2), symnp.asarray([[0, 1, 0], [1, 1, 1], [0, 1, 0]], 'float64'))
    if name == 'apply-1x3':
        return ses.call('focal:apply', R(d2), symnp.ones((1, 3), 'float64'), userfuncs.pos_weighted_sum)
    if name == 'circle-2':
        return ses.call('convolution:circle_kernel', 1, 1, 2)
    if name == 'circle-3':
        return ses.call('convolution:circle_kernel', 1, 1, 3)
    if name == 'annulus-2-1':
        return ses.call('convolution:annulus_kernel', 1, 1, 2, 1)
    if name == 'annulus-3-1':
        return ses.call('convolution:annulus_kernel', 1, 1, 3, 1)
    if name == 'conv-annulus':
        k = ses.call('convolution:annulus_kernel', 1, 1, 1, 0.5)
        return ses.call('convolution:convolution_2d', R(d2), k)
    if name == 'stats-default':
        return ses.call('zonal:stats', R(env['zones']), R(d2))
    if name == 'stats-subset':
        return ses.call('zonal:stats', R(env['zones']), R(d2), [1.0], ['max', 'count'])
    if name == 'crosstab':
        return ses.call('zonal:crosstab', R(env['zones']), R(env['cats']))
    if name == 'nb-sample-k2':
        return ses.call('classify:natural_breaks', R(env['nbdata']), 4, 'nb', 2)
    if name == 'nb-sample-k3':
        return ses.call('classify:natural_breaks', R(env['nbdata']), 5, 'nb', 3)
    if name == 'nb-full':
        return ses.call('classify:natural_breaks', R(env['nbdata']), 20000, 'nb', 2)
    if name == 'quantile':
        return ses.call('classify:quantile', R(env['nbdata']), 2)
    if name == 'perlin-5':
        return ses.call('perlin:perlin', R(symnp.zeros((2, 3), 'float32')), (1, 1), 5)
    if name == 'perlin-9':
        return ses.call('perlin:perlin', R(symnp.zeros((2, 3), 'float32')), (2, 1), 9)
    if name == 'astar-barrier':
        return ses.call('pathfinding:a_star_search', R(env['surface']), (float(ys[0]), float(xs[0])), (float(ys[-1]), float(xs[-1])), [2.0])
    if name == 'astar-free':
        return ses.call('pathfinding:a_star_search', R(env['surface']), (float(ys[0]), float(xs[0])), (float(ys[-1]), float(xs[-1])))
    if name == 'regions-8':
        return ses.call('zonal:regions', R(env['zones']), 8)
    if name == 'polygonize-int':
        return ses.call('experimental.polygonize:polygonize', R(env['zones'].astype('int32')))
    if name.endswith('-same-objects'):
        # the user repeats the call with the very same raster objects (no fresh copy per call): a call that scribbles on its arguments
        # changes what its own repetition returns.  The fresh session gets pristine objects of its own (env is per session for these).
        key = ('shared', id(ses))
        if key not in env:
            cube = symnp.asarray([[[1.0, 7.0, 3.0], [9.0, 4.0, 12.0]], [[2.0, 5.0, 8.0], [6.0, 1.0, 3.0]]], 'float64').copy()
            cube[0, 1, 0] = env['nbdata'][1, 0]
            env[key] = {'zones': R(env['zones']), 'nb': R(env['nbdata']), 'd2': R(env['d2']),
                        'cube': symxr.DataArray(cube, dims=('layer', 'y', 'x'), coords={'layer': symnp.asarray([10, 20]), 'y': ys, 'x': xs}, name='cube')}
        sh = env[key]
        if name == 'crosstab3d-same-objects':
            return ses.call('zonal:crosstab', sh['zones'], sh['cube'], None, None, 0, 'sum')
        if name == 'nb-full-same-objects':
            return ses.call('classify:natural_breaks', sh['nb'], 20000, 'nb', 2)
        if name == 'mean0-same-objects':
            out = ses.call('focal:mean', sh['d2'], 0)
            return out
    if name == 'polygonize-float':
        return ses.call('experimental.polygonize:polygonize', R(env['zones']))
    raise KeyError(name)


def _module_state(ses):
    """snapshot of Python-level state reachable from the loaded modules: module-level containers, function defaults, RNG"""
    snap = {}
    inst = getattr(ses, 'inst', None)
    if inst is None:
        return snap
    for mname, m in inst.mods.items():
        for k, v in list(vars(m).items()):
            if k.startswith('__'):
                continue
            if isinstance(v, (dict, list, set)):
                snap['%s.%s' % (mname, k)] = repr(sorted(v.items(), key=repr)) if isinstance(v, dict) else repr(v)
            elif isinstance(v, SymArray):
                snap['%s.%s' % (mname, k)] = repr(v.flat_values())
            elif callable(v) and getattr(v, '__module__', None) == mname:
                dflt = getattr(v, '__defaults__', None)
                if dflt:
                    snap['%s.%s.__defaults__' % (mname, k)] = repr(dflt)
                kw = getattr(v, '__kwdefaults__', None)
                if kw:
                    snap['%s.%s.__kwdefaults__' % (mname, k)] = repr(sorted(kw.items()))
            elif type(v).__name__ == '_Random':
                snap['%s.%s(rng)' % (mname, k)] = repr(v.get_state()[1][:4]) + repr(v.get_state()[2])
    return snap


def body(ctx, job):
    sc.set_axioms(congruence='syntactic')
    ys = coords_affine(2, 1.0, -1.0)
    xs = coords_affine(3, 0.0, 1.0)
    env = {'ys': ys, 'xs': xs}
    # symbolic pieces shared by the calls of the catalogue
    d = symnp.asarray([[0.0, 3.0, 0.0], [0.0, 0.0, 2.0]], 'float64').copy()
    d[0, 0] = ctx.real('d00', nan=True)
    d[1, 1] = ctx.real('d11', nan=False)
    env['d'] = d
    d2 = symnp.asarray([[1.0, 2.0, 4.0], [8.0, 3.0, 5.0]], 'float64').copy()
    d2[0, 1] = ctx.real('e01', nan=False, lo=-10, hi=10)
    env['d2'] = d2
    env['maxd'] = 1.5
    env['tv'] = ctx.real('tv', lo=0, hi=4)
    env['zones'] = symnp.asarray([[1.0, 1.0, 2.0], [2.0, 1.0, 2.0]], 'float64')
    env['cats'] = symnp.asarray([[5.0, 6.0, 5.0], [6.0, 6.0, 5.0]], 'float64')
    nb = symnp.asarray([[1.0, 7.0, 3.0], [9.0, 4.0, 12.0]], 'float64').copy()
    nb[1, 0] = ctx.real('nb10', nan=False, lo=8, hi=11)
    env['nbdata'] = nb
    env['surface'] = symnp.asarray([[1.0, 2.0, 1.0], [1.0, 1.0, 1.0]], 'float64')

    A = ctx.session('A')
    F = ctx.session('fresh')
    probe = job['probe']
    for h in job['history']:
        before = _module_state(A)
        _run(A, h, env)
        after = _module_state(A)
        changed = sorted(k for k in set(before) & set(after) if before[k] != after[k])     # modules load lazily: compare what existed before
        ctx.check('call-leaves-module-state-and-defaults-unchanged', not changed, info={'call': h, 'changed': changed[:5]})
    r1 = _flat(_run(A, probe, env))
    r2 = _flat(_run(A, probe, env))
    rf = _flat(_run(F, probe, env))
    ctx.observe('probe', r1)
    ok = len(r1) == len(r2) == len(rf)
    ctx.check('same-result-structure', ok, info={'history': job['history'], 'probe': probe, 'lens': [len(r1), len(r2), len(rf)]})
    if not ok:
        return
    for i, (a, b, c) in enumerate(zip(r1, r2, rf)):
        ctx.check('after-other-calls-equals-fresh-interpreter', _same(ctx, a, c),
                  info=lambda m, i=i, a=a, c=c: {'history': job['history'], 'probe': probe, 'index': i, 'after_history': ctx.ev(m, a), 'fresh': ctx.ev(m, c)})
        ctx.check('repeating-the-call-gives-the-same-result', _same(ctx, b, a),
                  info=lambda m, i=i, a=a, b=b: {'history': job['history'], 'probe': probe, 'index': i, 'first': ctx.ev(m, a), 'second': ctx.ev(m, b)})


def _same(ctx, a, b):
    if isinstance(a, str) or isinstance(b, str) or a is None or b is None:
        return a == b
    return same(a, b)
