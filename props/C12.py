"""C12 Classifiers label every finite cell, in order, within [0, k-1]."""
import itertools
import math

from sx import symnp, core as sc
from sx.harness import TOL32, TOL64, isfinite, isinf
from .common import raster, coords_affine, cells, And, Or, Not, Implies, ite, isnan, same, vals, Skip, Sum

ID = 'C12'
LEVEL = 'model_checking'
META = {
    'modules': ['classify', 'utils'],
    'functions': ['xrspatial.classify.' + f for f in ('binary', '_cpu_binary', 'reclassify', '_cpu_bin', '_bin', 'quantile', '_run_quantile', 'equal_interval',
                                                      '_run_equal_interval', 'natural_breaks', '_run_natural_break', '_run_jenks', '_run_numpy_jenks_matrices')],
    'bounds': {'quick': 'reclassify: every bin count 1..6, bins symbolic strictly ascending, value symbolic (NaN/+-inf allowed), new values symbolic; binary: <=3 listed values, '
                        'cells NaN/inf/finite, float and int dtypes; equal_interval / quantile: rasters of 3 and 4 cells (NaN allowed), k in {2,3}, plus int8 / int16 rasters of 3 cells over the whole range of the dtype (typed NumPy scalars: max - min may wrap), numpy and dask; natural_breaks: 3 and 4 cells, k=2; NOT symbolic: equal_interval on 144 small integer ranges x k in {2,3,5,7} executed with real float arithmetic (enumeration of the np.arange overshoot / last-cut rounding cases that exact reals cannot reach)',
               'thorough': 'reclassify up to 8 bins; equal_interval / quantile 5 cells k in {2,3,4}; natural_breaks 5 cells k = 2 (class range / order claims; the optimality claim is decided on 3 cells (ties allowed) and for one tied pair on 4 cells - the general 4-cell and all 5-cell cases come back unknown from z3 under load, which would make the run inconclusive)'},
    'stubs': ['numba.jit = identity', 'np.percentile = sorting network + linear interpolation', 'np.unique / sort = forking insertion sort', 'print / warnings = no-op'],
    'outside': ['single-precision rounding of break values (the guards bins[-1] = max exist for floats; in exact arithmetic they are not needed, so a mutant deleting them is invisible here)',
                'np.arange overshoot branch for symbolic inputs (dead under exact arithmetic; executed only by the concrete landmark sweep, which is enumeration and not a solver verdict)', 'natural_breaks sampling branch (num_sample < size)', 'rasters with fewer than two distinct finite values for equal_interval'],
    'assumptions': ['exact real arithmetic', 'at least two distinct finite values (equal_interval), at least k distinct finite values (natural_breaks optimality)'],
    'technique': 'solver-based bounded symbolic execution of the real Python source (z3), counterexample replay on the real build; float-rounding-only cases of equal_interval additionally by a concrete landmark sweep (enumeration, not a solver verdict)',
    'budget_s': {'quick': 200, 'thorough': 1500},
}


def jobs(tier, seed):
    out = []
    for n in range(1, 7 if tier == 'quick' else 9):
        out.append({'name': 'reclassify-%dbins' % n, 'kind': 'reclassify', 'n': n})
    out.append({'name': 'reclassify-length-mismatch', 'kind': 'reclass-len'})
    # concrete float64 bin edges that are not representable in float32, against float32 / float64 / int rasters:
    # the comparison must use the edges as given (a value between an edge and its float32 rounding exposes a narrowed copy)
    for dt in ('float32', 'float64', 'int32'):
        out.append({'name': 'reclassify-decimal-edges-' + dt, 'kind': 'reclassify', 'n': 3, 'concrete_bins': [0.1, 0.2, 0.7], 'dtype': dt})
    for dt in ('float64', 'float32', 'int32'):
        out.append({'name': 'binary-' + dt, 'kind': 'binary', 'dtype': dt, 'nvals': 2 if dt != 'float64' else 3})
    # listed values the raster dtype cannot represent: fractional values against an integer raster, doubles against a float32 raster (float32 store model)
    out.append({'name': 'binary-int32-fractional-values', 'kind': 'binary', 'dtype': 'int32', 'nvals': 2, 'real_listed': True})
    out.append({'name': 'binary-float32-store-model', 'kind': 'binary', 'dtype': 'float32', 'nvals': 1, 'f32': True})
    sizes = [(1, 3), (2, 2)] if tier == 'quick' else [(1, 3), (2, 2), (1, 5)]
    for shp in sizes:
        for k in ((2, 3) if tier == 'quick' else (2, 3, 4)):
            out.append({'name': 'equal_interval-%dx%d-k%d' % (shp[0], shp[1], k), 'kind': 'equal_interval', 'shape': list(shp), 'k': k})
            out.append({'name': 'quantile-%dx%d-k%d' % (shp[0], shp[1], k), 'kind': 'quantile', 'shape': list(shp), 'k': k})
    out.append({'name': 'equal_interval-inf-cells', 'kind': 'equal_interval', 'shape': [1, 3], 'k': 2, 'inf': True})
    # narrow integer rasters over the whole range of the dtype (span wider than the dtype's positive range): NumPy and Dask branch
    for dt in ('int8', 'int16'):
        out.append({'name': 'equal_interval-%s-full-range' % dt, 'kind': 'equal_interval', 'shape': [1, 3], 'k': 2, 'int_dtype': dt})
    out.append({'name': 'equal_interval-int8-full-range-dask', 'kind': 'equal_interval', 'shape': [1, 3], 'k': 2, 'int_dtype': 'int8', 'chunks': ((1,), (2, 1))})
    out.append({'name': 'quantile-int8-full-range', 'kind': 'quantile', 'shape': [1, 3], 'k': 2, 'int_dtype': 'int8'})
    # float rounding of min + i*width is invisible to the exact-real model (np.arange may overshoot by one element, the last cut may round below the maximum):
    # a concrete sweep over small integer ranges, where those roundings do occur, executes the same code with real float arithmetic
    for k in (2, 3, 5, 7):
        out.append({'name': 'equal_interval-float-landmarks-k%d' % k, 'kind': 'ei-landmarks', 'k': k})
    # same for quantile (percentile list built with arange: k = 2..40 on 100 distinct non-integer values) and natural_breaks
    # (break values not representable in float32)
    for lo, hi in ((2, 14), (14, 27), (27, 41)):
        out.append({'name': 'quantile-float-landmarks-k%d-%d' % (lo, hi - 1), 'kind': 'q-landmarks', 'ks': list(range(lo, hi))})
    out.append({'name': 'natural_breaks-float-landmarks', 'kind': 'nb-landmarks'})
    # ties carry weight: two cells share a value (the multiplicity must enter the within-class variance)
    out.append({'name': 'natural_breaks-2x2-k2-tied-pair', 'kind': 'natural_breaks', 'shape': [2, 2], 'k': 2, 'optimality': True, 'tie': [0, 1]})
    for shp in ([(1, 3), (2, 2)] if tier == 'quick' else [(1, 3), (2, 2), (1, 5)]):
        for k in ((2, 3) if (tier != 'quick' or shp == (1, 3)) else (2,)):
            if shp == (1, 5) and k == 3:
                continue        # the Jenks recurrence over five symbolic values with three classes: z3 answers unknown on path feasibility (measured)
            out.append({'name': 'natural_breaks-%dx%d-k%d' % (shp[0], shp[1], k), 'kind': 'natural_breaks', 'shape': list(shp), 'k': k,
                        'optimality': shp == (1, 3)})
    return out


def body(ctx, job):
    sc.set_axioms()
    kind = job['kind']
    if kind == 'reclassify':
        return body_reclassify(ctx, job)
    if kind == 'reclass-len':
        agg = raster(ctx.array('d', (1, 1), 'float64'), name='a')
        exc = ctx.raises(ctx.call, 'classify:reclassify', agg, [1.0, 2.0], [0, 1, 2])
        ctx.check('length-mismatch-raises', exc == 'ValueError')
        return
    if kind == 'ei-landmarks':
        return body_ei_landmarks(ctx, job)
    if kind == 'q-landmarks':
        return body_q_landmarks(ctx, job)
    if kind == 'nb-landmarks':
        return body_nb_landmarks(ctx, job)
    if kind == 'binary':
        return body_binary(ctx, job)
    return body_datadriven(ctx, job)


def body_reclassify(ctx, job):
    n = job['n']
    if job.get('concrete_bins'):
        bins = list(job['concrete_bins'])
    else:
        bins = [ctx.real('bin%d' % i) for i in range(n)]
        for a, b in zip(bins[:-1], bins[1:]):
            ctx.assume(a < b)
    newv = [ctx.real('new%d' % i) for i in range(n)]
    dt = job.get('dtype', 'float64')
    if dt.startswith('int'):
        d = ctx.array('d', (1, 2), dt, lo=-3, hi=3)
    else:
        d = ctx.array('d', (1, 2), dt, nan=True, inf=True)
    agg = raster(d, attrs={'res': 1}, name='a')
    res = ctx.call('classify:reclassify', agg, bins, newv)
    out = vals(res)
    ctx.observe('out', out)
    for c in cells((1, 2)):
        v = d[c]
        ref = math.nan
        for i in range(n - 1, -1, -1):
            ref = ite(v <= bins[i], newv[i], ref)
        ref = ite(isfinite(v), ref, math.nan)
        ctx.check('first-bin-with-upper-bound>=value', same(out[c], ref) if not job.get('concrete_bins') else ctx.close(out[c], ref, TOL32),
                  info=lambda m, c=c, ref=ref: {'value': ctx.ev(m, d[c]), 'bins': [ctx.ev(m, b) for b in bins], 'got': ctx.ev(m, out[c]), 'want': ctx.ev(m, ref)})


def body_binary(ctx, job):
    dt = job['dtype']
    isint = dt.startswith('int')
    if job.get('f32'):
        sc.set_axioms(f32_store_round=True)
    listed = [ctx.integer('val%d' % i, -4, 4) if (isint and not job.get('real_listed')) else ctx.real('val%d' % i, **({'lo': -4, 'hi': 4} if isint else {}))
              for i in range(job['nvals'])]
    d = ctx.array('d', (1, 2), dt, lo=-4 if isint else None, hi=4 if isint else None, nan=not isint, inf=not isint)
    agg = raster(d, attrs={'res': 1}, name='a')
    res = ctx.call('classify:binary', agg, listed)
    out = vals(res)
    ctx.observe('out', out)
    for c in cells((1, 2)):
        v = d[c]
        member = Or(*[v == x for x in listed])
        if isint:
            ctx.check('binary-int', out[c] == ite(member, 1, 0))
        else:
            ref = ite(member, 1.0, ite(isfinite(v), 0.0, math.nan))
            ctx.check('binary', same(out[c], ref), info=lambda m, c=c: {'value': ctx.ev(m, d[c]), 'listed': [ctx.ev(m, x) for x in listed], 'got': ctx.ev(m, out[c])})


def body_ei_landmarks(ctx, job):
    k = job['k']
    for lo in range(-3, 9):
        for span in range(1, 13):
            hi = lo + span
            cellsv = [float(lo), lo + span / 2.0, float(hi), lo + span / float(k), float('nan'), hi - span / float(k)]
            d = symnp.asarray([cellsv], 'float64').copy()
            res = ctx.call('classify:equal_interval', raster(d, attrs={'res': 1}, name='a'), k)
            out = [v if not sc.is_sym(v) else sc.as_const(v) for v in vals(res).ravel().flat_values()]
            info = {'values': cellsv, 'k': k, 'classes': [None if (o is None or o != o) else o for o in out]}
            if (lo + span) % 3 == 0:
                # the dask branch builds its bin list separately: same sweep, a third of the ranges
                res_da = ctx.call('classify:equal_interval', raster(d.copy(), attrs={'res': 1}, name='a', chunks=((1,), (2, 4))), k)
                out_da = [v if not sc.is_sym(v) else sc.as_const(v) for v in vals(res_da).ravel().flat_values()]
                ctx.check('dask-classes-equal-numpy-classes', all((a != a and b != b) or a == b for a, b in zip(out, out_da)),
                          info=dict(info, dask_classes=[None if (o is None or o != o) else o for o in out_da]))
            ctx.check('max-gets-top-class', out[2] == k - 1, info=info)
            ctx.check('min-gets-class-0', out[0] == 0, info=info)
            ctx.check('non-finite-cells-are-nan', out[4] != out[4], info=info)
            ctx.check('finite-cells-get-integer-class-in-range', all(o in range(k) for i, o in enumerate(out) if i != 4), info=info)
            ctx.check('order-preserving', all(out[i] <= out[j] for i in range(6) for j in range(6) if i != 4 and j != 4 and cellsv[i] <= cellsv[j]), info=info)


def _landmark_claims(ctx, cellsv, out, k, what):
    fin = [i for i, v in enumerate(cellsv) if v == v and abs(v) != float('inf')]
    info = {'fn': what, 'values': cellsv if len(cellsv) <= 8 else '%d values' % len(cellsv), 'k': k,
            'classes': [None if (o is None or o != o) else o for o in out][:12]}
    ctx.check('finite-cells-get-integer-class-in-range', all(out[i] == out[i] and out[i] in range(k) for i in fin), info=info)
    ctx.check('non-finite-cells-are-nan', all(out[i] != out[i] for i in range(len(cellsv)) if i not in fin), info=info)
    ctx.check('order-preserving', all(out[i] <= out[j] for i in fin for j in fin if cellsv[i] <= cellsv[j]), info=info)
    imax = max(fin, key=lambda i: cellsv[i])
    ctx.check('max-gets-top-class', out[imax] == max(o for o in (out[i] for i in fin) if o == o) if any(out[i] == out[i] for i in fin) else False, info=info)


def _plain_list(a):
    return [v if not sc.is_sym(v) else sc.as_const(v) for v in a.ravel().flat_values()]


def body_q_landmarks(ctx, job):
    cellsv = [i / 7.0 for i in range(100)]
    for k in job['ks']:
        d = symnp.asarray(cellsv, 'float64').reshape(10, 10).copy()
        res = ctx.call('classify:quantile', raster(d, attrs={'res': 1}, name='a'), k)
        out = _plain_list(vals(res))
        _landmark_claims(ctx, cellsv, out, k, 'quantile')
        ctx.check('quantile-uses-all-k-classes-on-distinct-data', len({o for o in out if o == o}) == k, info={'k': k, 'classes_used': len({o for o in out if o == o})})


def body_nb_landmarks(ctx, job):
    clusters = [0.0, 50.0, 100.0, 101.0, 102.0, 200.0, 201.0, 300.0, 301.0, 302.0]
    for cellsv, ks in (([0.1, 0.2, 0.3, 0.7], (2, 3, 4)), ([0.1, 0.35, 0.36, 0.9, 1.7, 1.75], (2, 3)), ([3.3, 1.1, 2.2, 9.9, 9.7, float('nan')], (2, 3, 5)),
                       ([1e-3, 2e-3, 7e-3, 8e-3], (2, 3)), (clusters, (5,))):
        for k in ks:
            if cellsv is clusters:
                # two isolated small values + three clusters: the optimal 5-partition isolates each of the two smallest values
                d = symnp.asarray([cellsv], 'float64').copy()
                res = ctx.call('classify:natural_breaks', raster(d, attrs={'res': 1}, name='a'), 20000, 'nb', k)
                out = _plain_list(vals(res))
                ctx.check('natural-breaks-separates-isolated-values-from-clusters', out == [0, 1, 2, 2, 2, 3, 3, 4, 4, 4], info={'values': cellsv, 'classes': out})
            d = symnp.asarray([cellsv], 'float64').copy()
            res = ctx.call('classify:natural_breaks', raster(d, attrs={'res': 1}, name='a'), 20000, 'nb', k)
            out = _plain_list(vals(res))
            _landmark_claims(ctx, cellsv, out, k, 'natural_breaks')
            if len(cellsv) >= 6:
                # the sub-sampling branch (num_sample < size): breaks come from a sample, the class range / order / top-class claims must still hold
                d = symnp.asarray([cellsv], 'float64').copy()
                res = ctx.call('classify:natural_breaks', raster(d, attrs={'res': 1}, name='a'), 4, 'nb', k)
                out = _plain_list(vals(res))
                _landmark_claims(ctx, cellsv, out, k, 'natural_breaks(num_sample=4)')


def body_datadriven(ctx, job):
    kind = job['kind']
    h, w = job['shape']
    k = job['k']
    n = h * w
    if job.get('int_dtype'):
        # narrow integer raster over its FULL value range: a min / max kept as a NumPy scalar of that dtype makes max - min wrap around
        import numpy as _rnp
        info = _rnp.iinfo(job['int_dtype'])
        d = ctx.array('d', (h, w), job['int_dtype'], lo=int(info.min), hi=int(info.max))
    else:
        d = ctx.array('d', (h, w), 'float64', nan=True, inf=bool(job.get('inf')))
    agg = raster(d, attrs={'res': 1}, name='a', **({'chunks': job['chunks']} if job.get('chunks') else {}))
    dl = d.flat_values()
    fin = [isfinite(v) for v in dl]
    # at least two distinct finite values
    distinct_pairs = [And(fin[i], fin[j], dl[i] != dl[j]) for i in range(n) for j in range(i)]
    ctx.assume(Or(*distinct_pairs))
    if job.get('tie'):
        ta, tb = job['tie']
        ctx.assume(And(fin[ta], fin[tb], dl[ta] == dl[tb]))
    if kind == 'equal_interval':
        res = ctx.call('classify:equal_interval', agg, k)
    elif kind == 'quantile':
        res = ctx.call('classify:quantile', agg, k)
    else:
        res = ctx.call('classify:natural_breaks', agg, 20000, 'nb', k)
    out = vals(res).ravel()
    ol = out.flat_values()
    ctx.observe('out', out)
    ndistinct = None
    for i in range(n):
        ctx.check('non-finite-cells-are-nan', Implies(Not(fin[i]), isnan(ol[i])))
        ctx.check('finite-cells-get-integer-class-in-range', Implies(fin[i], Or(*[ol[i] == c for c in range(k)])),
                  info=lambda m, i=i: {'values': [ctx.ev(m, v) for v in dl], 'classes': [ctx.ev(m, o) for o in ol]})
        for j in range(n):
            if i != j:
                ctx.check('order-preserving', Implies(And(fin[i], fin[j], dl[i] <= dl[j]), ol[i] <= ol[j]),
                          info=lambda m: {'values': [ctx.ev(m, v) for v in dl], 'classes': [ctx.ev(m, o) for o in ol]})
    # min / max of the finite cells
    mx = [And(fin[i], *[Implies(fin[j], dl[j] <= dl[i]) for j in range(n)]) for i in range(n)]
    mn = [And(fin[i], *[Implies(fin[j], dl[j] >= dl[i]) for j in range(n)]) for i in range(n)]
    if kind == 'equal_interval':
        for i in range(n):
            ctx.check('max-gets-top-class', Implies(mx[i], ol[i] == k - 1))
            # class c  <=>  min + c*width < v <= min + (c+1)*width   (class 0 closed on the left)
            for a in range(n):
                for b in range(n):
                    if a == b:
                        continue
                    lo, hi = dl[a], dl[b]
                    width = (hi - lo) / k
                    for c in range(k):
                        inband = And(dl[i] <= lo + (c + 1) * width, (dl[i] > lo + c * width) if c else True)
                        ctx.check('class-is-equal-width-interval-index', Implies(And(mn[a], mx[b], fin[i], inband), ol[i] == c))
    elif kind == 'quantile':
        # percentile bands: recompute the break values independently (sorting network over the finite cells is not available
        # without knowing which cells are finite, so the band claim is asserted on the all-finite sub-case)
        allfin = And(*fin)
        srt = symnp._sorting_network([ite(f, v, 0.0) for f, v in zip(fin, dl)])
        qs = []
        for t in range(1, k + 1):
            pos = (n - 1) * (100.0 * t / k) / 100.0
            lo = int(math.floor(pos + 1e-12))
            hi = min(lo + 1, n - 1)
            frac = pos - lo
            qs.append(srt[lo] + (srt[hi] - srt[lo]) * frac if frac > 1e-12 else srt[lo])
        for i in range(n):
            # class = number of distinct break values strictly below v
            below = []
            for t in range(k):
                distinct_from_prev = And(*[qs[t] != qs[u] for u in range(t)]) if t else True
                below.append(ite(And(distinct_from_prev, qs[t] < dl[i]), 1, 0))
            ctx.check('class-is-percentile-band', Implies(allfin, ol[i] == Sum(below)),
                      info=lambda m, i=i: {'values': [ctx.ev(m, v) for v in dl], 'classes': [ctx.ev(m, o) for o in ol], 'breaks': [ctx.ev(m, q) for q in qs]})
    else:
        for i in range(n):
            ctx.check('max-gets-top-class-or-fewer-classes', Implies(mx[i], ol[i] >= 1))
        # optimality of the within-class sum of squared deviations over all contiguous partitions of the sorted finite data (all-finite case)
        allfin = And(*fin)
        alldistinct = And(*[dl[i] != dl[j] for i in range(n) for j in range(i)])

        def ssd(classes_of):
            tot = 0.0
            for c in range(k):
                cnt = Sum([ite(classes_of[i] == c, 1, 0) for i in range(n)])
                sm = Sum([ite(classes_of[i] == c, dl[i], 0.0) for i in range(n)])
                sq = Sum([ite(classes_of[i] == c, dl[i] * dl[i], 0.0) for i in range(n)])
                # sum (x - mean)^2 = sq - sm^2/cnt ; multiply through by the (small) count to stay polynomial
                term = 0.0
                for m_ in range(1, n + 1):
                    term = ite(cnt == m_, sq - sm * sm / m_, term)
                tot = tot + term
            return tot
        got = ssd(ol)
        # every alternative: cut the value-sorted sequence into k contiguous non-empty groups -> classes by rank
        rank = [Sum([ite(dl[j] < dl[i], 1, 0) for j in range(n)]) for i in range(n)]
        for cuts in (itertools.combinations(range(1, n), k - 1) if job.get('optimality') else ()):
            bounds = (0,) + cuts + (n,)
            alt = []
            for i in range(n):
                cls = 0
                for c in range(k):
                    cls = ite(And(rank[i] >= bounds[c], rank[i] < bounds[c + 1]), c, cls)
                alt.append(cls)
            ctx.check('partition-minimises-within-class-ssd', Implies(allfin if (n <= 3 or job.get('tie')) else And(allfin, alldistinct), ctx.le(got, ssd(alt), TOL64)),
                      info=lambda m, cuts=cuts: {'values': [ctx.ev(m, v) for v in dl], 'classes': [ctx.ev(m, o) for o in ol], 'better_cuts': list(cuts)})
