"""dask.array as a *contract*, not as code (DESIGN 2.6).

An Array is a lazily evaluated whole SymArray plus a chunk grid.  map_blocks /
map_overlap call the user's block function once per block with exactly the block
(+halo) real dask would pass; elementwise arithmetic and global reductions act on
the whole array.  Validated against real dask by a concrete differential
(sx/selftest_dask.py run in the /venv worker).
"""
import builtins as _bi
import itertools

import numpy as _np

from . import symnp
from . import core as sc
from .symnp import SymArray

BLOCK_ORDER = ['forward']   # 'forward' | 'reverse' : order in which blocks are evaluated
CALLS = []                  # log of (kind, detail) for evidence


def _norm_chunks(chunks, shape, current=None):
    if isinstance(chunks, dict):
        base = list(current) if current is not None else [(n,) for n in shape]
        for ax, c in chunks.items():
            base[ax] = c
        chunks = tuple(base)
    if isinstance(chunks, int):
        chunks = (chunks,) * len(shape)
    out = []
    for c, n in zip(chunks, shape):
        if isinstance(c, int):
            if c <= 0 or c >= n:
                out.append((n,))
            else:
                q, r = divmod(n, c)
                out.append((c,) * q + ((r,) if r else ()))
        else:
            c = tuple(int(v) for v in c)
            if _bi.sum(c) != n:
                raise ValueError("chunks %r do not add up to %d" % (c, n))
            out.append(c)
    return tuple(out)


EPOCH = [0]
OVERRIDE = {}
TRACE = [None]


class Array:
    __array_priority__ = 3000

    def __init__(self, whole=None, chunks=None, thunk=None, shape=None, dtype=None):
        self._state = [whole, thunk, 0, None]      # [value, thunk, epoch of the cached value, explicit layer name]; replaced (not mutated) by item assignment: lazy children keep the state they captured
        self._shape = tuple(whole.shape) if whole is not None else (tuple(shape) if shape is not None else None)
        self._dtype = whole.dtype if whole is not None else (_np.dtype(dtype) if dtype is not None else None)
        self._chunks = chunks
        self.ncomputes = 0

    # -- lazy plumbing
    @property
    def _whole(self):
        return self._state[0]

    @property
    def _thunk(self):
        return self._state[1]

    @staticmethod
    def _eval(st):
        # graph-key model (see `compute`): a layer created with an explicit name= has exactly that key; when two different layers with the same
        # name meet in one graph, one replaces the other (OVERRIDE); cached values are only valid within the evaluation epoch they were computed in
        st = OVERRIDE.get(id(st), st)
        if st[1] is None:
            return st[0]                       # a leaf (concrete or symbolic data)
        if st[0] is None or st[2] != EPOCH[0]:
            w = st[1]()
            st[0] = w if isinstance(w, SymArray) else symnp.asarray(w)
            st[2] = EPOCH[0]
        if st[3] is not None and TRACE[0] is not None:
            TRACE[0].append((st[3], st))
        return st[0]

    def _cap(self):
        """a getter bound to the array's *current* graph (dask graphs are immutable snapshots)"""
        st = self._state
        return lambda: Array._eval(st)

    def compute(self, **kw):
        w = Array._eval(self._state)
        self._shape = tuple(w.shape)
        self._dtype = w.dtype
        self.ncomputes += 1
        return w

    @property
    def shape(self):
        if self._shape is None:
            self.compute()
        return self._shape

    @property
    def dtype(self):
        if self._dtype is None:
            self.compute()
        return self._dtype

    @property
    def ndim(self):
        return len(self.shape)

    @property
    def size(self):
        return int(_np.prod(self.shape)) if self.shape else 1

    @property
    def chunks(self):
        if self._chunks is None:
            self._chunks = tuple((n,) for n in self.shape)
        return self._chunks

    @property
    def chunksize(self):
        return tuple(_bi.max(c) for c in self.chunks)

    @property
    def numblocks(self):
        return tuple(len(c) for c in self.chunks)

    @property
    def _meta(self):
        return _np.empty((0,) * self.ndim)

    def __len__(self):
        return self.shape[0]

    def _lazy(self, f, chunks='same', shape='same', dtype=None):
        get = self._cap()
        return Array(None, self._chunks if chunks == 'same' else chunks, lambda: f(get()),
                     shape=self._shape if shape == 'same' else shape, dtype=dtype)

    def astype(self, dt, **kw):
        return self._lazy(lambda a: a.astype(dt), dtype=dt)

    def rechunk(self, chunks):
        ch = _norm_chunks(chunks, self.shape, self.chunks)
        return Array(self._whole, ch, self._thunk, self._shape, self._dtype) if self._whole is not None else \
            Array(None, ch, self._cap(), self._shape, self._dtype)

    def copy(self):
        return self._lazy(lambda a: a.copy())

    def ravel(self):
        return self._lazy(lambda a: a.ravel(), chunks=None, shape=(self.size,))

    def reshape(self, *s):
        return self._lazy(lambda a: a.reshape(*s), chunks=None, shape=None)

    def transpose(self, *axes):
        ch = tuple(self.chunks[a] for a in axes) if axes else tuple(reversed(self.chunks))
        return self._lazy(lambda a: a.transpose(*axes), chunks=ch, shape=None)

    @property
    def T(self):
        return self.transpose()

    def map_blocks(self, f, *a, **k):
        return map_blocks(f, self, *a, **k)

    def map_overlap(self, f, *a, **k):
        return map_overlap(f, self, *a, **k)

    def to_delayed(self):
        blocks = _split(self.compute(), self.chunks)     # evaluated eagerly: per-block values of the current graph
        nb = self.numblocks
        arr = _np.empty(nb, dtype=object)
        for pos, b in blocks:
            arr[pos] = Delayed(lambda b=b: b)
        return arr

    # -- indexing
    def __getitem__(self, key):
        get = self._cap()
        kget = key._cap() if isinstance(key, Array) else (lambda: key)
        return Array(None, None, lambda: get()[kget()])

    def __setitem__(self, key, val):
        """dask supports masked / basic item assignment: it replaces the array's graph in place"""
        prev = self._cap()
        kget = key._cap() if isinstance(key, Array) else (lambda: key)
        vget = val._cap() if isinstance(val, Array) else (lambda: val)

        def run():
            base = symnp.asarray(prev()).copy()
            base[kget()] = vget()
            return base
        self._state = [None, run, 0, None]

    # -- elementwise
    def _bin(self, o, f):
        get = self._cap()
        oget = o._cap() if isinstance(o, Array) else (lambda: o)
        return Array(None, self._chunks, lambda: f(get(), oget()), shape=self._shape)

    def __add__(self, o): return self._bin(o, lambda a, b: a + b)
    def __radd__(self, o): return self._bin(o, lambda a, b: b + a)
    def __sub__(self, o): return self._bin(o, lambda a, b: a - b)
    def __rsub__(self, o): return self._bin(o, lambda a, b: b - a)
    def __mul__(self, o): return self._bin(o, lambda a, b: a * b)
    def __rmul__(self, o): return self._bin(o, lambda a, b: b * a)
    def __truediv__(self, o): return self._bin(o, lambda a, b: a / b)
    def __rtruediv__(self, o): return self._bin(o, lambda a, b: b / a)
    def __pow__(self, o): return self._bin(o, lambda a, b: a ** b)
    def __neg__(self): return self._lazy(lambda a: -a)
    def __lt__(self, o): return self._bin(o, lambda a, b: a < b)
    def __le__(self, o): return self._bin(o, lambda a, b: a <= b)
    def __gt__(self, o): return self._bin(o, lambda a, b: a > b)
    def __ge__(self, o): return self._bin(o, lambda a, b: a >= b)
    def __eq__(self, o): return self._bin(o, lambda a, b: a == b)
    def __ne__(self, o): return self._bin(o, lambda a, b: a != b)
    def __and__(self, o): return self._bin(o, lambda a, b: a & b)
    def __or__(self, o): return self._bin(o, lambda a, b: a | b)
    def __invert__(self): return self._lazy(lambda a: ~a)
    __hash__ = None

    def __bool__(self):
        return bool(self.compute())

    def __float__(self):
        return float(self.compute())

    def _red(self, name):
        get = self._cap()
        return Array(None, (), lambda: symnp.asarray(getattr(symnp, name)(get())), shape=())

    def sum(self, axis=None, **kw):
        if axis is None:
            return self._red('sum')
        get = self._cap()
        return Array(None, None, lambda: get().sum(axis=axis))

    def min(self, **kw): return self._red('min')
    def max(self, **kw): return self._red('max')
    def mean(self, **kw): return self._red('mean')
    def std(self, **kw): return self._red('std')
    def var(self, **kw): return self._red('var')

    def __repr__(self):
        return "sx.dask.Array(shape=%s, chunks=%s)" % (self._shape, self._chunks)


def from_array(a, chunks='auto', **kw):
    a = symnp.asarray(a)
    if chunks == 'auto' or chunks is None:
        chunks = a.shape
    return Array(a, _norm_chunks(chunks, a.shape))


def _offsets(ch):
    o = [0]
    for c in ch:
        o.append(o[-1] + c)
    return o


def _split(a, chunks):
    """-> list of (block position tuple, block view)"""
    offs = [_offsets(c) for c in chunks]
    out = []
    for pos in itertools.product(*[range(len(c)) for c in chunks]):
        key = tuple(slice(offs[ax][p], offs[ax][p + 1]) for ax, p in enumerate(pos))
        out.append((pos, a[key]))
    return out


def _order(items):
    return list(reversed(items)) if BLOCK_ORDER[0] == 'reverse' else items


def _assemble(results, nblocks):
    """results: dict pos -> block ; concatenates along every axis"""
    nd = len(nblocks)

    def rec(prefix, ax):
        if ax == nd:
            return results[tuple(prefix)]
        parts = [rec(prefix + [i], ax + 1) for i in range(nblocks[ax])]
        return symnp.concatenate(parts, axis=ax) if len(parts) > 1 else parts[0]
    return rec([], 0)


def map_blocks(f, *args, dtype=None, meta=None, chunks=None, drop_axis=None, new_axis=None, **kwargs):
    xname = kwargs.pop('name', None)          # an explicit name= is the full graph key of the layer (token= only a prefix: no collision)
    kwargs.pop('token', None)
    arrs = [a for a in args if isinstance(a, Array) and a.ndim > 0]
    if drop_axis is not None or new_axis is not None:
        raise sc.ShimMissing("map_blocks(drop_axis/new_axis)")
    if not arrs:
        raise sc.ShimMissing("map_blocks without array arguments")
    ref = arrs[0]
    for a in arrs[1:]:
        if a.chunks != ref.chunks:
            # dask unifies chunks: the common refinement
            pass
    CALLS.append(('map_blocks', getattr(f, '__name__', str(f)), ref.chunks))
    getters = [_g(a) for a in args]

    def run():
        # unify chunks to the common refinement (what dask.array.core.unify_chunks does for equal shapes)
        chs = []
        for ax in range(ref.ndim):
            cuts = set()
            for a in arrs:
                if a.ndim != ref.ndim or a.shape != ref.shape:
                    raise sc.ShimMissing("map_blocks with broadcasting arrays")
                cuts |= set(_offsets(a.chunks[ax]))
            cuts = sorted(cuts)
            chs.append(tuple(b - a for a, b in zip(cuts[:-1], cuts[1:])))
        chs = tuple(chs)
        splits = []
        for a, get in zip(args, getters):
            if isinstance(a, Array) and a.ndim > 0:
                splits.append(dict(_split(get(), chs)))
            elif isinstance(a, Array):
                splits.append(get())
            else:
                splits.append(a)
        nblocks = tuple(len(c) for c in chs)
        results = {}
        for pos in _order(list(itertools.product(*[range(n) for n in nblocks]))):
            blk_args = [s[pos].copy() if isinstance(s, dict) else s for s in splits]
            r = f(*blk_args, **kwargs)
            results[pos] = symnp.asarray(r)
        return _assemble(results, nblocks)
    out = Array(None, ref.chunks, run, shape=ref.shape, dtype=dtype)
    out._state[3] = xname
    return out


def ensure_minimum_chunksize(size, chunks):
    """verbatim port of dask.array.overlap.ensure_minimum_chunksize (dask 2026.8)"""
    if size <= _bi.min(chunks):
        return chunks
    output = []
    new = 0
    for c in chunks:
        if c < size:
            if new > size + (size - c):
                output.append(new - (size - c))
                new = size
            else:
                new += c
        if new >= size:
            output.append(new)
            new = 0
        if c >= size:
            new += c
    if new >= size:
        output.append(new)
    elif len(output) >= 1:
        output[-1] += new
    else:
        raise ValueError("The overlapping depth %d is larger than your array %d." % (size, _bi.sum(chunks)))
    return tuple(output)


def _coerce_depth(nd, depth):
    if isinstance(depth, int):
        return (depth,) * nd
    if isinstance(depth, dict):
        return tuple(int(depth.get(i, 0)) for i in range(nd))
    return tuple(int(d) for d in depth)


def map_overlap(f, *args, depth=None, boundary=None, trim=True, meta=None, align_arrays=True, allow_rechunk=True, **kwargs):
    xname = kwargs.pop('name', None)
    kwargs.pop('token', None)
    if isinstance(f, Array):
        # legacy argument order  map_overlap(x, func, ...)
        f, args = args[0], (f,) + tuple(args[1:])
    arrs = [a for a in args if isinstance(a, Array)]
    if len(arrs) != len(args):
        raise sc.ShimMissing("map_overlap with non-array positional arguments")
    ref = arrs[0]
    nd = ref.ndim
    dep = _coerce_depth(nd, depth if depth is not None else 0)
    CALLS.append(('map_overlap', getattr(f, '__name__', str(f)), ref.chunks, dep, repr(boundary)))
    if boundary is None:
        raise sc.ShimMissing("map_overlap(boundary=None)")
    if isinstance(boundary, str):
        raise sc.ShimMissing("map_overlap(boundary=%r)" % boundary)

    getters = [_g(a) for a in arrs]

    def run():
        wholes = [g() for g in getters]
        shp = wholes[0].shape
        for w in wholes:
            if w.shape != shp:
                raise sc.ShimMissing("map_overlap over differently shaped arrays")
        # align chunks (common refinement), then make every chunk >= depth
        chs = []
        for ax in range(nd):
            cuts = set()
            for a in arrs:
                cuts |= set(_offsets(a.chunks[ax]))
            cuts = sorted(cuts)
            c = tuple(b - a for a, b in zip(cuts[:-1], cuts[1:]))
            c = ensure_minimum_chunksize(dep[ax], c) if dep[ax] > 0 else c
            chs.append(c)
        padded = []
        for w in wholes:
            pw = symnp.full(tuple(n + 2 * d for n, d in zip(shp, dep)), boundary, w.dtype)
            pw[tuple(slice(d, d + n) for n, d in zip(shp, dep))] = w
            padded.append(pw)
        offs = [_offsets(c) for c in chs]
        nblocks = tuple(len(c) for c in chs)
        results = {}
        for pos in _order(list(itertools.product(*[range(n) for n in nblocks]))):
            key = tuple(slice(offs[ax][p], offs[ax][p + 1] + 2 * dep[ax]) for ax, p in enumerate(pos))
            blks = [pw[key].copy() for pw in padded]
            r = symnp.asarray(f(*blks, **kwargs))
            if trim:
                tk = tuple(slice(d, r.shape[ax] - d) if d else slice(None) for ax, d in enumerate(dep))
                r = r[tk]
            results[pos] = r
        return _assemble(results, nblocks)
    out = Array(None, ref.chunks, run, shape=ref.shape)
    out._state[3] = xname
    return out


# ----------------------------------------------------------------- module-level functions
def _lift1(name):
    def g(x, *a, **k):
        if isinstance(x, Array):
            if name in ('nanmean', 'nanstd', 'nanmin', 'nanmax', 'min', 'max', 'ptp', 'nansum', 'sum', 'mean', 'std', 'nanvar') and not a and not k.get('axis'):
                get = x._cap()
                return Array(None, (), lambda: symnp.asarray(getattr(symnp, name)(get())), shape=())
            return x._lazy(lambda w: getattr(symnp, name)(w, *a, **k))
        return getattr(symnp, name)(x, *a, **k)
    g.__name__ = name
    return g


for _n in ('nanmean', 'nanstd', 'nanmin', 'nanmax', 'min', 'max', 'ptp', 'nansum', 'sum', 'mean', 'std', 'nanvar',
           'isnan', 'isfinite', 'isinf', 'sqrt', 'absolute', 'exp', 'log', 'sin', 'cos', 'floor', 'ceil'):
    globals()[_n] = _lift1(_n)
globals()['abs'] = _lift1('absolute')


def _c(x):
    return x.compute() if isinstance(x, Array) else x


def _g(x):
    """getter bound to x's graph at this moment"""
    return x._cap() if isinstance(x, Array) else (lambda: x)


def where(c, a, b):
    ch = c._chunks if isinstance(c, Array) else None
    gc, ga, gb = _g(c), _g(a), _g(b)
    return Array(None, ch, lambda: symnp.where(gc(), ga(), gb()), shape=getattr(c, '_shape', None))


def logical_or(a, b):
    ch = a._chunks if isinstance(a, Array) else None
    ga, gb = _g(a), _g(b)
    return Array(None, ch, lambda: symnp.logical_or(ga(), gb()), shape=getattr(a, '_shape', None))


def logical_and(a, b):
    ch = a._chunks if isinstance(a, Array) else None
    ga, gb = _g(a), _g(b)
    return Array(None, ch, lambda: symnp.logical_and(ga(), gb()), shape=getattr(a, '_shape', None))


def stack(arrs, axis=0, allow_unknown_chunksizes=False):
    gs = [_g(a) for a in arrs]
    return Array(None, None, lambda: symnp.stack([g() for g in gs], axis=axis))


def concatenate(arrs, axis=0, allow_unknown_chunksizes=False):
    gs = [_g(a) for a in arrs]
    return Array(None, None, lambda: symnp.concatenate([symnp.asarray(g()) for g in gs], axis=axis))


def percentile(a, q, **kw):
    if a.ndim != 1:
        raise NotImplementedError("Percentiles only implemented for 1-d arrays")
    ga = _g(a)
    return Array(None, None, lambda: symnp.asarray(symnp.percentile(ga(), q)))


def unique(a, **kw):
    ga = _g(a)
    return Array(None, None, lambda: symnp.unique(ga(), **kw))


def linspace(start, stop, num=50, endpoint=True, dtype=None, chunks='auto', **kw):
    return Array(symnp.linspace(start, stop, num, endpoint=endpoint, dtype=dtype), ((int(num),),))


def arange(*a, chunks='auto', **kw):
    if any(isinstance(v, Array) for v in a):
        # dask (2026.8) cannot build a range from lazy bounds
        raise TypeError("An error occurred while calling the arange method registered to the numpy backend (lazy dask scalars are not accepted as bounds)")
    w = symnp.arange(*a, **kw)
    return Array(w, ((w.size,),))


def meshgrid(*xi, **kw):
    ws = [x.compute() if isinstance(x, Array) else symnp.asarray(x) for x in xi]
    X, Y = symnp.meshgrid(*ws, **kw)
    # dask: chunks follow the inputs
    chx = xi[0].chunks[0] if isinstance(xi[0], Array) else (ws[0].size,)
    chy = xi[1].chunks[0] if isinstance(xi[1], Array) else (ws[1].size,)
    return [Array(X, (chy, chx)), Array(Y, (chy, chx))]


def zeros(shape, dtype=float, chunks='auto', **kw):
    return from_array(symnp.zeros(shape, dtype), chunks)


def ones(shape, dtype=float, chunks='auto', **kw):
    return from_array(symnp.ones(shape, dtype), chunks)


def full(shape, v, dtype=None, chunks='auto', **kw):
    return from_array(symnp.full(shape, v, dtype), chunks)


def empty(shape, dtype=float, chunks='auto', **kw):
    return from_array(symnp.zeros(shape, dtype), chunks)


def asarray(a, **kw):
    if isinstance(a, Array):
        return a
    return from_array(a)


class _MaNS:
    @staticmethod
    def getmaskarray(a):
        return Array(None, None, lambda: symnp.zeros(_c(a).shape, _np.bool_))


ma = _MaNS()


# ----------------------------------------------------------------- delayed
class Delayed:
    def __init__(self, thunk):
        self._thunk = thunk
        self._val = None
        self._done = False

    def compute(self, **kw):
        if not self._done:
            self._val = self._thunk()
            self._done = True
        return self._val


def _force(x):
    if isinstance(x, Delayed):
        return x.compute()
    if isinstance(x, Array):
        v = x.compute()
        return v.item() if isinstance(v, SymArray) and v.ndim == 0 else v
    if isinstance(x, (list, tuple)):
        return type(x)(_force(v) for v in x)
    if isinstance(x, dict):
        return {k: _force(v) for k, v in x.items()}
    return x


def delayed(f=None, **dkw):
    if f is None:
        return lambda g: delayed(g, **dkw)
    if getattr(f, '__sx_delayed__', False):
        return f            # delayed(already delayed function) is the same object in dask
    if isinstance(f, Delayed):
        def call(*a, **k):
            return Delayed(lambda: f.compute()(*_force(a), **_force(k)))
        return call
    if not callable(f):
        return Delayed(lambda: f)

    def call(*a, **k):
        return Delayed(lambda: f(*_force(a), **_force(k)))
    call.__name__ = getattr(f, '__name__', 'delayed')
    call.__wrapped__ = f
    call.__sx_delayed__ = True
    return call


def from_delayed(d, shape=None, dtype=None, meta=None, **kw):
    return Array(None, None, lambda: symnp.asarray(d.compute()), dtype=dtype)


def compute(*a, **kw):
    """dask.compute(*collections): one merged graph.  Layers created with an explicit `name=` carry that key verbatim, so two *different* layers
    of the same name collide when they are evaluated together: the later collection's layer replaces the earlier one's (each collection computed
    on its own is unaffected).  Modelled by evaluating every collection once to learn which named layers it contains, then re-evaluating the
    collections whose named layer lost."""
    arrs = [x for x in a if isinstance(x, Array)]
    if len(arrs) < 2:
        return tuple(_force(x) for x in a)
    traces = []
    for x in arrs:
        EPOCH[0] += 1
        TRACE[0] = []
        try:
            Array._eval(x._state)
        finally:
            tr, TRACE[0] = TRACE[0], None
        traces.append(tr)
    winners = {}
    for tr in traces:
        for name, st in tr:
            winners[name] = st
    for x, tr in zip(arrs, traces):
        ov = {id(st): winners[name] for name, st in tr if winners[name] is not st}
        if ov:
            EPOCH[0] += 1
            OVERRIDE.update(ov)
            try:
                joint = Array._eval(x._state)
                x._state[2] = -1            # the colliding value must not be reused by a later, separate evaluation
            finally:
                OVERRIDE.clear()
            x._joint_value = joint
        else:
            x._joint_value = None
    out = []
    for x in a:
        if isinstance(x, Array) and getattr(x, '_joint_value', None) is not None:
            v = x._joint_value
            out.append(v.item() if isinstance(v, SymArray) and v.ndim == 0 else v)
        else:
            out.append(_force(x))
    EPOCH[0] += 1
    return tuple(out)
