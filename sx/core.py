"""sx core: forking path explorer + IEEE-special-value-aware extended reals over z3.

Scalars
  SF  : (nan, pinf, ninf : bool|z3 Bool ; v : z3 Real)   - float as "extended real"
  SI  : z3 Int
  SB  : z3 Bool; __bool__ is the fork point
The real CPython interpreter executes the real code objects of /repo; the
proxies build z3 terms; Explorer re-executes once per feasible path.
"""
import math
import sys
import time
import os
from fractions import Fraction

import z3


class PathAbort(BaseException):
    """Current path is infeasible / pruned (BaseException so user code cannot swallow it)."""


class Inconclusive(Exception):
    """Something prevents a verdict (solver unknown, unwinding limit, missing shim)."""


class ShimMissing(Inconclusive):
    pass


class UnwindLimit(Inconclusive):
    pass


# ----------------------------------------------------------------- bool layer
# a "B" is a python bool or a z3 BoolRef

def _isb(x):
    return x is True or x is False


def bnot(a):
    if _isb(a):
        return not a
    return z3.Not(a)


def band(*xs):
    out = []
    for x in xs:
        if x is False:
            return False
        if x is True:
            continue
        out.append(x)
    if not out:
        return True
    if len(out) == 1:
        return out[0]
    return z3.And(*out)


def bor(*xs):
    out = []
    for x in xs:
        if x is True:
            return True
        if x is False:
            continue
        out.append(x)
    if not out:
        return False
    if len(out) == 1:
        return out[0]
    return z3.Or(*out)


def bimp(a, b):
    return bor(bnot(a), b)


def bite(c, a, b):
    if c is True:
        return a
    if c is False:
        return b
    if _isb(a) and _isb(b):
        if a == b:
            return a
        return c if a else z3.Not(c)
    if a is True:
        return bor(c, b)
    if a is False:
        return band(bnot(c), b)
    if b is True:
        return bor(bnot(c), a)
    if b is False:
        return band(c, a)
    return z3.If(c, a, b)


def bz3(b):
    if _isb(b):
        return z3.BoolVal(b)
    return b


def bsimp(t):
    """z3 Bool -> python bool if constant after simplify, else simplified term."""
    if _isb(t):
        return t
    t = z3.simplify(t)
    if z3.is_true(t):
        return True
    if z3.is_false(t):
        return False
    return t


# ----------------------------------------------------------------- explorer

class Stats:
    def __init__(self):
        self.sat = 0
        self.unsat = 0
        self.unknown = 0
        self.fallback = 0
        self.solver_s = 0.0
        self.paths = 0
        self.aborted = 0
        self.proved = 0
        self.refuted = 0

    def as_dict(self):
        return dict(self.__dict__)

    def add(self, o):
        for k, v in (o if isinstance(o, dict) else o.__dict__).items():
            setattr(self, k, getattr(self, k, 0) + v)


try:
    sys.set_int_max_str_digits(0)      # model values can be rationals with thousands of digits
except AttributeError:
    pass
EX = None  # current explorer (one per process at a time)
JIT_DEPTH = 0  # > 0 while a function decorated with numba.jit runs (set by the loader's jit stand-in)


def cur():
    return EX


class Explorer:
    """Depth-first exploration over decision prefixes with re-execution."""

    def __init__(self, max_paths=10 ** 9, timeout_s=10 ** 9, inc_timeout_ms=800, seed=0):
        self.solver = z3.Solver()
        self.solver.set('timeout', inc_timeout_ms)
        if seed:
            self.solver.set('random_seed', seed & 0x7fffffff)
        self.worklist = [[]]
        self.prefix = []
        self.trace = []
        self.pc = []
        self.model = None
        self.apps = {}
        self.fresh = 0
        self.stats = Stats()
        self.max_paths = max_paths
        self.timeout_s = timeout_s
        self.t0 = time.time()
        self.ticks = {}
        self.known = {}
        self._keep = []
        self.axioms_used = set()

    # -- naming
    def fresh_name(self, base):
        self.fresh += 1
        return "%s!%d" % (base, self.fresh)

    # -- solver plumbing
    def _raw_check(self, extra=None, quick=False):
        t = time.time()
        r = self.solver.check() if extra is None else self.solver.check(extra)
        used = self.solver
        if r == z3.unknown and quick:
            # optional query (model diversification): no fallback portfolio, "unknown" simply means "no extra model"
            self.stats.solver_s += time.time() - t
            self.last_model = None
            return False
        if r == z3.unknown:
            self.stats.fallback += 1
            s2 = z3.Solver()
            s2.set('timeout', 30000)
            s2.add(*self.solver.assertions())
            if extra is not None:
                s2.add(extra)
            r = s2.check()
            used = s2
            if r == z3.unknown:
                s3 = z3.Then('simplify', 'purify-arith', 'qfnra-nlsat').solver()
                s3.set('timeout', 60000)
                s3.add(*self.solver.assertions())
                if extra is not None:
                    s3.add(extra)
                try:
                    r = s3.check()
                    used = s3
                except z3.Z3Exception:
                    r = z3.unknown
        self.stats.solver_s += time.time() - t
        if r == z3.sat:
            self.stats.sat += 1
            self.last_model = used.model()
        elif r == z3.unsat:
            self.stats.unsat += 1
            self.last_model = None
        else:
            self.stats.unknown += 1
            self.last_model = None
            raise Inconclusive("solver unknown: %s" % self.solver.reason_unknown())
        return r == z3.sat

    def _add(self, c):
        self.solver.add(c)
        if self.model is not None:
            try:
                if not z3.is_true(self.model.eval(c, model_completion=True)):
                    self.model = None
            except z3.Z3Exception:
                self.model = None

    def add_axiom(self, c, tag=None):
        """Universally valid fact about fresh symbols (not a path assumption)."""
        if c is True:
            return
        if tag:
            self.axioms_used.add(tag)
        self._add(bz3(c))

    def assume(self, c):
        """Harness / path assumption."""
        if isinstance(c, SB):
            c = c.t
        if c is True:
            return
        if c is False:
            raise PathAbort()
        c = bsimp(c)
        if c is True:
            return
        if c is False:
            raise PathAbort()
        self._add(c)
        self.pc.append(c)

    def ensure_model(self):
        if self.model is None:
            if not self._raw_check():
                raise PathAbort()
            self.model = self.last_model
        return self.model

    def decide(self, cond):
        """z3 Bool -> python bool, forking when both sides are feasible."""
        cond = bsimp(cond)
        if cond is True or cond is False:
            return cond
        # conditions already decided on this path (syntactic cache; implied decisions are not recorded in the trace)
        cid = cond.get_id()
        known = self.known.get(cid)
        if known is not None:
            return known
        if z3.is_not(cond):
            k2 = self.known.get(cond.arg(0).get_id())
            if k2 is not None:
                return not k2
        r = self._decide(cond)
        self.known[cid] = r
        self._keep.append(cond)
        return r

    def _decide(self, cond):
        i = len(self.trace)
        if i < len(self.prefix):
            d = self.prefix[i]
            self.trace.append(d)
            c = cond if d else z3.Not(cond)
            self._add(c)
            self.pc.append(c)
            return d
        m = self.ensure_model()
        d = z3.is_true(m.eval(cond, model_completion=True))
        keep = self.model
        other = self._raw_check(z3.Not(cond) if d else cond)
        self.model = keep
        if other:
            self.worklist.append(self.trace + [not d])
        self.trace.append(d)
        c = cond if d else z3.Not(cond)
        self.solver.add(c)  # model already satisfies c
        self.pc.append(c)
        return d

    def tick(self, name, limit):
        n = self.ticks.get(name, 0) + 1
        self.ticks[name] = n
        if n > limit:
            raise UnwindLimit("unwinding limit %d reached at %s" % (limit, name))

    # -- proof obligations
    def prove(self, claim):
        """Is `claim` valid under the current path condition? None if yes, else a model."""
        if isinstance(claim, SB):
            claim = claim.t
        claim = bsimp(claim)
        if claim is True:
            self.stats.proved += 1
            return None
        neg = z3.BoolVal(True) if claim is False else z3.Not(claim)
        keep = self.model
        sat = self._raw_check(neg)
        self.model = keep
        if not sat:
            self.stats.proved += 1
            return None
        self.stats.refuted += 1
        return self.last_model

    def feasible(self, cond):
        if isinstance(cond, SB):
            cond = cond.t
        cond = bsimp(cond)
        if cond is True:
            if self.model is not None:
                return True
            if getattr(self, '_feas_at', None) == (self.stats.paths + self.stats.aborted, len(self.pc)):
                return True
            r = self._raw_check()
            if r:
                self.model = self.last_model
                self._feas_at = (self.stats.paths + self.stats.aborted, len(self.pc))
            return r
        if cond is False:
            return False
        keep = self.model
        r = self._raw_check(cond)
        self.model = keep
        return r

    # -- exploration
    def explore(self, fn, slice_s=None):
        """Run fn(self) once per feasible path. Returns True when the worklist emptied."""
        global EX
        t_slice = time.time()
        while self.worklist:
            now = time.time()
            if self.stats.paths >= self.max_paths or now - self.t0 > self.timeout_s:
                return False
            if slice_s is not None and now - t_slice > slice_s:
                return False
            self.prefix = self.worklist.pop()
            self.trace = []
            self.pc = []
            self.model = None
            self.apps = {}
            self.ticks = {}
            self.known = {}
            self._keep = []
            self.solver.push()
            EX = self
            try:
                fn(self)
                self.stats.paths += 1
            except PathAbort:
                self.stats.aborted += 1
            finally:
                self.solver.pop()
        return True


# ----------------------------------------------------------------- numbers

def to_real(x):
    if isinstance(x, bool):
        return z3.RealVal(int(x))
    if isinstance(x, int):
        return z3.RealVal(x)
    if isinstance(x, float):
        return z3.RealVal(Fraction(x))
    if isinstance(x, Fraction):
        return z3.RealVal(x)
    raise TypeError(type(x))


_ZERO = z3.RealVal(0)


class SB:
    """symbolic bool"""
    __slots__ = ('t',)

    def __init__(self, t):
        self.t = t

    def __bool__(self):
        return EX.decide(self.t)

    def __and__(self, o):
        return mkbool(band(self.t, bt(o)))
    __rand__ = __and__

    def __or__(self, o):
        return mkbool(bor(self.t, bt(o)))
    __ror__ = __or__

    def __xor__(self, o):
        return mkbool(z3.Xor(self.t, bz3(bt(o))))
    __rxor__ = __xor__

    def __invert__(self):
        return mkbool(z3.Not(self.t))

    def __eq__(self, o):
        if isinstance(o, (SB, bool)) or _np_bool(o):
            return mkbool(self.t == bz3(bt(o)))
        return SI(z3.If(self.t, 1, 0)) == o

    def __ne__(self, o):
        r = self.__eq__(o)
        return mkbool(bnot(bt(r)))

    def __hash__(self):
        return 0

    # numeric behaviour of bools
    def _num(self):
        return SI(z3.If(self.t, 1, 0))

    def __add__(self, o): return self._num() + o
    def __radd__(self, o): return o + self._num()
    def __mul__(self, o): return self._num() * o
    def __rmul__(self, o): return o * self._num()
    def __sub__(self, o): return self._num() - o
    def __rsub__(self, o): return o - self._num()

    def __repr__(self):
        return "SB(%s)" % self.t

    def item(self):
        return self


def _np_bool(x):
    return type(x).__name__ in ('bool_', 'bool') and not isinstance(x, bool) and hasattr(x, 'dtype')


def bt(x):
    """anything boolean-like -> B (python bool or z3 Bool)"""
    if isinstance(x, SB):
        return x.t
    if isinstance(x, bool):
        return x
    if isinstance(x, SI):
        return bsimp(x.t != 0)
    if isinstance(x, SF):
        return bsimp(bor(x.nan, x.pinf, x.ninf, x.v != 0))
    if isinstance(x, (int, float)):
        return bool(x)
    if hasattr(x, 'dtype') and hasattr(x, 'item'):
        return bool(x)
    if z3.is_expr(x):
        return x
    raise TypeError(type(x))


def mkbool(t):
    t = bsimp(t)
    if t is True or t is False:
        return t
    return SB(t)


def truth(x):
    """python truthiness, fork if symbolic"""
    return bool(x)


class SF:
    """extended real with IEEE special values. nan/pinf/ninf: B ; v: z3 Real"""
    __slots__ = ('nan', 'pinf', 'ninf', 'v')

    def __init__(self, nan, v, pinf=False, ninf=False):
        self.nan = nan
        self.pinf = pinf
        self.ninf = ninf
        self.v = v

    # -- constructors
    @staticmethod
    def fresh(name, nan=True, inf=False):
        v = z3.Real(name)
        n = z3.Bool(name + '.nan') if nan else False
        if inf:
            p = z3.Bool(name + '.pinf')
            q = z3.Bool(name + '.ninf')
            if EX is not None:
                # at most one special flag
                EX.add_axiom(z3.And(z3.Not(z3.And(p, q)), z3.Not(z3.And(bz3(n), p)), z3.Not(z3.And(bz3(n), q))))
            return SF(n, v, p, q)
        return SF(n, v)

    @staticmethod
    def lift(x):
        if isinstance(x, SF):
            return x
        if isinstance(x, SI):
            return SF(False, z3.ToReal(x.t))
        if isinstance(x, SB):
            return SF(False, z3.If(x.t, z3.RealVal(1), _ZERO))
        if hasattr(x, 'dtype') and hasattr(x, 'item'):
            x = x.item()
        if isinstance(x, float):
            if x != x:
                return _NAN
            if x == math.inf:
                return _PINF
            if x == -math.inf:
                return _NINF
        return SF(False, to_real(x))

    # -- classification helpers (B)
    def special(self):
        return bor(self.nan, self.pinf, self.ninf)

    def isinf(self):
        return bor(self.pinf, self.ninf)

    def finite(self):
        return bnot(self.special())

    def simple(self):
        """no inf flags possible"""
        return self.pinf is False and self.ninf is False

    # sign tests incl. infinities (B); false for nan
    def is_pos(self):
        return band(bnot(self.nan), bor(self.pinf, band(bnot(self.ninf), self.v > 0)))

    def is_neg(self):
        return band(bnot(self.nan), bor(self.ninf, band(bnot(self.pinf), self.v < 0)))

    def is_zero(self):
        return band(self.finite(), self.v == 0)

    # -- arithmetic
    def __add__(self, o):
        o = _lift_or_ni(o)
        if o is NotImplemented:
            return o
        a, b = self, o
        if a.simple() and b.simple():
            return SF(bor(a.nan, b.nan), a.v + b.v)
        nan = bor(a.nan, b.nan, band(a.pinf, b.ninf), band(a.ninf, b.pinf))
        pinf = band(bnot(nan), bor(a.pinf, b.pinf))
        ninf = band(bnot(nan), bor(a.ninf, b.ninf))
        return SF(nan, a.v + b.v, pinf, ninf)

    def __radd__(self, o):
        return SF.lift(o).__add__(self)

    def __neg__(self):
        return SF(self.nan, -self.v, self.ninf, self.pinf)

    def __pos__(self):
        return self

    def __sub__(self, o):
        o = _lift_or_ni(o)
        if o is NotImplemented:
            return o
        return self.__add__(o.__neg__())

    def __rsub__(self, o):
        return SF.lift(o).__sub__(self)

    def __mul__(self, o):
        o = _lift_or_ni(o)
        if o is NotImplemented:
            return o
        a, b = self, o
        if a.simple() and b.simple():
            return SF(bor(a.nan, b.nan), _mulv(a.v, b.v))
        ainf = a.isinf()
        binf = b.isinf()
        nan = bor(a.nan, b.nan, band(ainf, b.is_zero()), band(binf, a.is_zero()))
        anyinf = bor(ainf, binf)
        neg = bz3(a.is_neg()) != bz3(b.is_neg())
        pinf = band(bnot(nan), anyinf, z3.Not(neg))
        ninf = band(bnot(nan), anyinf, neg)
        return SF(nan, _mulv(a.v, b.v), bsimp(pinf), bsimp(ninf))

    def __rmul__(self, o):
        return SF.lift(o).__mul__(self)

    def __truediv__(self, o):
        o = _lift_or_ni(o)
        if o is NotImplemented:
            return o
        if JIT_DEPTH > 0:
            # scalar division inside a Numba-compiled function: ZeroDivisionError when the divisor is zero (fork)
            bv0 = z3.simplify(o.v)
            if not (z3.is_rational_value(bv0) and bv0.as_fraction() != 0):
                if bool(mkbool(o.is_zero())):
                    raise ZeroDivisionError("division by zero")
        return self._div_ieee(o)

    def _div_ieee(self, o):
        o = _lift_or_ni(o)
        if o is NotImplemented:
            return o
        a, b = self, o
        bv = z3.simplify(b.v)
        if b.simple() and b.nan is False and z3.is_rational_value(bv) and bv.as_fraction() != 0:
            # division by a non-zero constant
            inv = 1 / bv.as_fraction()
            r = SF(a.nan, a.v * z3.RealVal(inv))
            if not a.simple():
                if inv > 0:
                    r.pinf, r.ninf = a.pinf, a.ninf
                else:
                    r.pinf, r.ninf = a.ninf, a.pinf
            return r
        bzero = b.is_zero()
        azero = a.is_zero()
        ainf = a.isinf()
        binf = b.isinf()
        nan = bor(a.nan, b.nan, band(azero, bzero), band(ainf, binf))
        neg = bz3(a.is_neg()) != bz3(b.is_neg())
        toinf = band(bnot(nan), bor(bzero, ainf))
        pinf = bsimp(band(toinf, z3.Not(neg)))
        ninf = bsimp(band(toinf, neg))
        # finite quotient
        if z3.is_rational_value(bv):
            q = a.v / bv if bv.as_fraction() != 0 else _ZERO
        else:
            ca, cb = canon(a.v), canon(bv)
            EX._keep.append((ca, cb))            # the ASTs must stay alive for as long as their ids are cache keys (z3 recycles ids of freed ASTs)
            key = ('quo', ca.get_id(), cb.get_id())
            q = EX.apps.get(key)
            if q is None:
                q = z3.Real(EX.fresh_name('quo'))
                EX.apps[key] = q
                if AX.get('div_axiom', True):
                    EX.add_axiom(z3.Implies(bv != 0, q * bv == a.v), 'div: q*b==a (b!=0)')
                else:
                    # over-approximation that keeps queries linear: only the sign of the quotient is stated
                    EX.add_axiom(z3.Implies(bv != 0, z3.And((q > 0) == z3.Or(z3.And(a.v > 0, bv > 0), z3.And(a.v < 0, bv < 0)), (q == 0) == (a.v == 0))),
                                 'div by a symbolic divisor: only sign(q) = sign(a)*sign(b) is stated in this harness (over-approximation)')
        if binf is not False:
            q = z3.If(bz3(binf), _ZERO, q)
        return SF(bsimp(nan), q, pinf, ninf)

    def __rtruediv__(self, o):
        return SF.lift(o).__truediv__(self)

    def __floordiv__(self, o):
        q = self.__truediv__(o)
        return sym_floor(q)

    def __rfloordiv__(self, o):
        return SF.lift(o).__floordiv__(self)

    def __mod__(self, o):
        o = SF.lift(o)
        ov = z3.simplify(o.v)
        if not (o.simple() and o.nan is False and z3.is_rational_value(ov) and ov.as_fraction() > 0):
            raise ShimMissing("SF %% non-constant")
        fl = sym_floor(self / o)
        r = self - fl * o
        return SF(bor(self.special()), r.v)

    def __abs__(self):
        return SF(self.nan, z3.If(self.v >= 0, self.v, -self.v), bor(self.pinf, self.ninf), False)

    def __pow__(self, p):
        if isinstance(p, (int, float)) and not isinstance(p, bool):
            if p == 2:
                return self * self
            if p == 0.5:
                return sym_sqrt(self)
            if p == 1:
                return self
            if float(p) == int(p) and 0 <= p <= 8:
                r = SF.lift(1.0)
                for _ in range(int(p)):
                    r = r * self
                return r
        raise ShimMissing("SF ** %r" % (p,))

    def __rpow__(self, b):
        raise ShimMissing("%r ** SF" % (b,))

    # -- comparisons (NaN compares false)
    def _lt(a, b):
        both = band(bnot(a.nan), bnot(b.nan))
        if a.simple() and b.simple():
            return band(both, a.v < b.v)
        return band(both, bor(band(a.ninf, bnot(b.ninf)), band(b.pinf, bnot(a.pinf)),
                              band(a.finite(), b.finite(), a.v < b.v)))

    def _eq(a, b):
        both = band(bnot(a.nan), bnot(b.nan))
        if a.simple() and b.simple():
            return band(both, a.v == b.v)
        return band(both, bor(band(a.pinf, b.pinf), band(a.ninf, b.ninf),
                              band(a.finite(), b.finite(), a.v == b.v)))

    def __lt__(self, o):
        o = _lift_or_ni(o)
        if o is NotImplemented:
            return o
        return mkbool(SF._lt(self, o))

    def __gt__(self, o):
        o = _lift_or_ni(o)
        if o is NotImplemented:
            return o
        return mkbool(SF._lt(o, self))

    def __le__(self, o):
        o = _lift_or_ni(o)
        if o is NotImplemented:
            return o
        return mkbool(bor(SF._lt(self, o), SF._eq(self, o)))

    def __ge__(self, o):
        o = _lift_or_ni(o)
        if o is NotImplemented:
            return o
        return mkbool(bor(SF._lt(o, self), SF._eq(self, o)))

    def __eq__(self, o):
        o = _lift_or_ni(o)
        if o is NotImplemented:
            return False
        return mkbool(SF._eq(self, o))

    def __ne__(self, o):
        o = _lift_or_ni(o)
        if o is NotImplemented:
            return True
        return mkbool(bnot(SF._eq(self, o)))

    def __hash__(self):
        return 0

    def same(self, o):
        """identical value, NaN == NaN (B)"""
        o = SF.lift(o)
        return bor(band(self.nan, o.nan), SF._eq(self, o))

    def __repr__(self):
        return "SF(nan=%s,v=%s%s)" % (self.nan, z3.simplify(self.v), '' if self.simple() else ',inf')

    def item(self):
        return self

    def __float__(self):
        c = as_const(self)
        if c is not None:
            return c
        raise ShimMissing("float() of symbolic value")

    def __int__(self):
        return concretize_int(sym_trunc_int(self))

    def __index__(self):
        raise TypeError("SF is not an index")

    def __bool__(self):
        return bool(mkbool(bt(self)))

    def __round__(self, nd=None):
        raise ShimMissing("round(SF)")

    @property
    def real(self):
        return self

    @property
    def dtype(self):
        import numpy as _np
        return _np.dtype('float64')


_NAN = SF(True, _ZERO)
_PINF = SF(False, _ZERO, True, False)
_NINF = SF(False, _ZERO, False, True)


def _mulv(a, b):
    return a * b


def _lift_or_ni(o):
    if isinstance(o, SF):
        return o
    if isinstance(o, (SI, SB, int, float, Fraction)):
        return SF.lift(o)
    if hasattr(o, 'dtype') and hasattr(o, 'item') and getattr(o, 'ndim', 1) == 0:
        return SF.lift(o.item())
    return NotImplemented


def as_const(x):
    """SF/SI with constant content -> python number, else None"""
    if isinstance(x, SF):
        if x.nan is True:
            return math.nan
        if x.pinf is True:
            return math.inf
        if x.ninf is True:
            return -math.inf
        if x.nan is False and x.simple():
            t = z3.simplify(x.v)
            if z3.is_rational_value(t):
                return float(t.as_fraction())
        return None
    if isinstance(x, SI):
        t = z3.simplify(x.t)
        if z3.is_int_value(t):
            return t.as_long()
        return None
    return x


class SI:
    """symbolic int (mathematical integer)"""
    __slots__ = ('t',)

    def __init__(self, t):
        self.t = t

    @staticmethod
    def fresh(name, lo=None, hi=None):
        t = z3.Int(name)
        if EX is not None:
            if lo is not None:
                EX.assume(t >= lo)
            if hi is not None:
                EX.assume(t <= hi)
        return SI(t)

    @staticmethod
    def lift(x):
        if isinstance(x, SI):
            return x
        if isinstance(x, SB):
            return SI(z3.If(x.t, 1, 0))
        if hasattr(x, 'dtype') and hasattr(x, 'item'):
            x = x.item()
        if isinstance(x, float):
            if x != int(x):
                raise TypeError("non-integral float in int context")
            x = int(x)
        return SI(z3.IntVal(int(x)))

    def _isf(self, o):
        return isinstance(o, (SF, float, Fraction)) or (hasattr(o, 'dtype') and getattr(o.dtype, 'kind', '') == 'f' and getattr(o, 'ndim', 1) == 0)

    def _ok(self, o):
        return isinstance(o, (SI, SB, int)) or (hasattr(o, 'dtype') and getattr(o.dtype, 'kind', '') in 'iub' and getattr(o, 'ndim', 1) == 0)

    def __add__(self, o):
        if self._isf(o): return SF.lift(self) + o
        if not self._ok(o): return NotImplemented
        return SI(self.t + SI.lift(o).t)
    __radd__ = __add__

    def __sub__(self, o):
        if self._isf(o): return SF.lift(self) - o
        if not self._ok(o): return NotImplemented
        return SI(self.t - SI.lift(o).t)

    def __rsub__(self, o):
        if self._isf(o): return o - SF.lift(self)
        if not self._ok(o): return NotImplemented
        return SI(SI.lift(o).t - self.t)

    def __mul__(self, o):
        if self._isf(o): return SF.lift(self) * o
        if not self._ok(o): return NotImplemented
        return SI(self.t * SI.lift(o).t)
    __rmul__ = __mul__

    def __truediv__(self, o):
        return SF.lift(self) / o

    def __rtruediv__(self, o):
        return SF.lift(o) / SF.lift(self)

    def __neg__(self): return SI(-self.t)
    def __pos__(self): return self
    def __abs__(self): return SI(z3.If(self.t >= 0, self.t, -self.t))

    def __floordiv__(self, o):
        if self._isf(o): return SF.lift(self) // o
        o = SI.lift(o)
        c = as_const(o)
        if c is not None and c > 0:
            return SI(self.t / o.t)  # z3 int div = floor for positive divisor
        raise ShimMissing("SI // non-positive-constant")

    def __mod__(self, o):
        if self._isf(o): return SF.lift(self) % o
        o = SI.lift(o)
        c = as_const(o)
        if c is not None and c > 0:
            return SI(self.t % o.t)
        raise ShimMissing("SI % non-positive-constant")

    def __pow__(self, p):
        if isinstance(p, int) and 0 <= p <= 8:
            r = SI.lift(1)
            for _ in range(p):
                r = r * self
            return r
        return SF.lift(self) ** p

    def _cmp(self, o, op):
        if self._isf(o):
            return getattr(SF.lift(self), op)(o)
        if not self._ok(o):
            return NotImplemented
        return mkbool(getattr(self.t, op)(SI.lift(o).t))

    def __lt__(self, o): return self._cmp(o, '__lt__')
    def __le__(self, o): return self._cmp(o, '__le__')
    def __gt__(self, o): return self._cmp(o, '__gt__')
    def __ge__(self, o): return self._cmp(o, '__ge__')

    def __eq__(self, o):
        r = self._cmp(o, '__eq__')
        return False if r is NotImplemented else r

    def __ne__(self, o):
        r = self._cmp(o, '__ne__')
        return True if r is NotImplemented else r

    def __hash__(self): return 0
    def __index__(self): return concretize_int(self)
    def __int__(self): return concretize_int(self)
    def __float__(self): return float(concretize_int(self))
    def __bool__(self): return bool(mkbool(self.t != 0))
    def item(self): return self

    def __repr__(self):
        return "SI(%s)" % z3.simplify(self.t)

    @property
    def dtype(self):
        import numpy as _np
        return _np.dtype('int64')


class SIT(SI):
    """symbolic NumPy integer scalar of a fixed-width dtype narrower than 64 bits (what a min / max / ptp reduction over an integer array returns
    OUTSIDE compiled code): + - * with another such scalar or a Python int is evaluated in the NumPy result dtype and wraps around
    (NumPy >= 2 promotion: a Python int operand is weak). Inside Numba-compiled code integer arithmetic is 64-bit, so no typed scalar is made there.
    The overflow case is a separate path (forked on 'result in range'), so that the common in-range path keeps a linear term."""
    __slots__ = ('npdt',)

    def __init__(self, t, npdt):
        self.t = t
        self.npdt = npdt

    @property
    def dtype(self):
        return self.npdt

    def item(self):
        return SI(self.t)

    def _rdt(self, o):
        import numpy as _np
        if isinstance(o, SIT):
            return _np.result_type(self.npdt, o.npdt)
        if isinstance(o, (SI, SB)):
            return None
        if isinstance(o, bool):
            return self.npdt
        if isinstance(o, int):
            info = _np.iinfo(self.npdt)
            if not (info.min <= o <= info.max):
                raise OverflowError("Python integer %d out of bounds for %s" % (o, self.npdt))       # NumPy >= 2
            return self.npdt
        if hasattr(o, 'dtype') and getattr(o, 'ndim', 1) == 0 and getattr(o.dtype, 'kind', '') in 'iu':
            return _np.result_type(self.npdt, o.dtype)
        return None

    @staticmethod
    def typed(t, npdt):
        import numpy as _np
        npdt = _np.dtype(npdt)
        if npdt.kind not in 'iu' or npdt.itemsize >= 8:
            return SI(t)
        info = _np.iinfo(npdt)
        lo, hi, m = int(info.min), int(info.max), 1 << (npdt.itemsize * 8)
        t = z3.simplify(t) if not isinstance(t, int) else z3.IntVal(t)
        if z3.is_int_value(t):
            return SIT(z3.IntVal((t.as_long() - lo) % m + lo), npdt)
        if bool(mkbool(z3.And(t >= lo, t <= hi))):
            return SIT(t, npdt)
        return SIT((t - lo) % m + lo, npdt)

    def _ty(self, o, r):
        if r is NotImplemented or not isinstance(r, SI):
            return r
        rdt = self._rdt(o)
        if rdt is None:
            return r
        return SIT.typed(r.t, rdt)

    def __add__(self, o): return self._ty(o, SI.__add__(self, o))
    __radd__ = __add__
    def __sub__(self, o): return self._ty(o, SI.__sub__(self, o))
    def __rsub__(self, o): return self._ty(o, SI.__rsub__(self, o))
    def __mul__(self, o): return self._ty(o, SI.__mul__(self, o))
    __rmul__ = __mul__
    def __neg__(self): return SIT.typed(-self.t, self.npdt)
    def __abs__(self): return SIT.typed(z3.If(self.t >= 0, self.t, -self.t), self.npdt)

    def __repr__(self):
        return "SIT(%s, %s)" % (z3.simplify(self.t), self.npdt)


def concretize_int(si):
    """fork over the feasible values of a symbolic int (model-guided)."""
    t = z3.simplify(si.t)
    if z3.is_int_value(t):
        return t.as_long()
    n = 0
    while True:
        n += 1
        if n > 64:
            raise UnwindLimit("concretize_int: more than 64 candidate values")
        m = EX.ensure_model()
        v = m.eval(t, model_completion=True).as_long()
        if EX.decide(t == v):
            return v


def sym_trunc_int(x, strict=True, nan_value=None):
    """int(x): truncation toward zero -> SI (fresh Int tied to x).
    strict (python int()): NaN/inf raise ValueError; non-strict (array casts): the result is an unconstrained int."""
    x = SF.lift(x)
    c = as_const(x)
    if c is not None:
        if c != c or c in (math.inf, -math.inf):
            if strict:
                raise ValueError("cannot convert float NaN/inf to integer")
            return SI.lift(nan_value) if nan_value is not None else SI(z3.Int(EX.fresh_name('poison')))
        return SI.lift(int(c))
    sp = x.special()
    if strict and sp is not False and bool(mkbool(sp)):
        raise ValueError("cannot convert float NaN/inf to integer")
    cv = canon(x.v)
    EX._keep.append(cv)
    key = ('trunc', cv.get_id())
    n = EX.apps.get(key)
    if n is None:
        n = z3.Int(EX.fresh_name('trunc'))
        EX.apps[key] = n
        nr = z3.ToReal(n)
        rel = z3.If(x.v >= 0, z3.And(nr <= x.v, x.v < nr + 1), z3.And(nr - 1 < x.v, x.v <= nr))
        EX.add_axiom(rel if sp is False else z3.Implies(z3.Not(bz3(sp)), rel), 'int(): truncation')
    if sp is not False and not strict and nan_value is not None:
        # array casts of NaN / inf: the value this platform (x86-64 cvttsd2si, low bits kept) produces
        return SI(z3.If(bz3(sp), z3.IntVal(nan_value), n))
    return SI(n)


def sym_floor(x):
    x = SF.lift(x)
    c = as_const(x)
    if c is not None:
        return math.floor(c) * 1.0 if math.isfinite(c) else c
    n = z3.Int(EX.fresh_name('floor'))
    nr = z3.ToReal(n)
    EX.add_axiom(z3.And(nr <= x.v, x.v < nr + 1), 'floor')
    return SF(x.nan, nr, x.pinf, x.ninf)


def sym_ceil(x):
    x = SF.lift(x)
    c = as_const(x)
    if c is not None:
        return math.ceil(c) * 1.0 if math.isfinite(c) else c
    n = z3.Int(EX.fresh_name('ceil'))
    nr = z3.ToReal(n)
    EX.add_axiom(z3.And(nr - 1 < x.v, x.v <= nr), 'ceil')
    return SF(x.nan, nr, x.pinf, x.ninf)


# ----------------------------------------------------------------- concrete IEEE float (replay mode)
class F(float):
    """python float with IEEE division semantics (x/0 -> +-inf or NaN instead of ZeroDivisionError);
    arithmetic stays in this type so that specification code can run on replay values unchanged"""
    __slots__ = ()

    @staticmethod
    def _w(v):
        return F(v) if isinstance(v, float) and not isinstance(v, F) else v

    def __add__(self, o): return F._w(float.__add__(self, o)) if isinstance(o, (int, float)) else NotImplemented
    def __radd__(self, o): return F._w(float.__radd__(self, o)) if isinstance(o, (int, float)) else NotImplemented
    def __sub__(self, o): return F._w(float.__sub__(self, o)) if isinstance(o, (int, float)) else NotImplemented
    def __rsub__(self, o): return F._w(float.__rsub__(self, o)) if isinstance(o, (int, float)) else NotImplemented
    def __mul__(self, o): return F._w(float.__mul__(self, o)) if isinstance(o, (int, float)) else NotImplemented
    def __rmul__(self, o): return F._w(float.__rmul__(self, o)) if isinstance(o, (int, float)) else NotImplemented
    def __neg__(self): return F(float.__neg__(self))
    def __pos__(self): return self
    def __abs__(self): return F(float.__abs__(self))

    def __truediv__(self, o):
        if not isinstance(o, (int, float)):
            return NotImplemented
        if JIT_DEPTH > 0 and o == 0:
            raise ZeroDivisionError("division by zero")
        return F(_ieee_div(float(self), float(o)))

    def __rtruediv__(self, o):
        if not isinstance(o, (int, float)):
            return NotImplemented
        if JIT_DEPTH > 0 and self == 0:
            raise ZeroDivisionError("division by zero")
        return F(_ieee_div(float(o), float(self)))

    def __pow__(self, p):
        if isinstance(p, float) and p == 0.5:
            return F(math.sqrt(self)) if self >= 0 else F(math.nan)
        try:
            return F._w(float.__pow__(self, p))
        except (OverflowError, ZeroDivisionError):
            return F(math.inf)

    def item(self):
        return self


def _ieee_div(a, b):
    if b == 0:
        if a != a or a == 0:
            return math.nan
        return math.inf if (a > 0) == (math.copysign(1.0, b) > 0) else -math.inf
    return a / b


# ----------------------------------------------------------------- ite / merge

def sym_ite(c, a, b):
    """c: B ; a, b scalars (SF/SI/SB/python) -> merged scalar"""
    if c is True:
        return a
    if c is False:
        return b
    if a is b:
        return a
    if isinstance(a, (SB, bool)) and isinstance(b, (SB, bool)):
        return mkbool(bite(c, bt(a), bt(b)))
    ai = isinstance(a, (SI, int)) and not isinstance(a, bool)
    bi = isinstance(b, (SI, int)) and not isinstance(b, bool)
    if ai and bi:
        if isinstance(a, int) and isinstance(b, int) and a == b:
            return a
        return SI(z3.If(c, SI.lift(a).t, SI.lift(b).t))
    a = SF.lift(a)
    b = SF.lift(b)
    return SF(bite(c, a.nan, b.nan), z3.If(c, a.v, b.v), bite(c, a.pinf, b.pinf), bite(c, a.ninf, b.ninf))


def is_sym(x):
    return isinstance(x, (SF, SI, SB))


# ----------------------------------------------------------------- Ackermannised functions

CONGRUENCE = ["full"]   # 'full': pairwise congruence axioms; 'syntactic': only identical canonical arguments share a result


def canon(a):
    """canonical polynomial form (sum of monomials) so that equal polynomials are syntactically equal"""
    return z3.simplify(a, som=True, sort_sums=True, flat=True, som_blowup=100000)


def uf_app(name, args, mono=0):
    """fresh Real per application + congruence (+ monotonicity) against earlier applications.
    mono: +1 strictly increasing, -1 strictly decreasing (unary only), 0 none."""
    ex = EX
    args = [canon(a) for a in args]
    lst = ex.apps.setdefault(name, [])
    for (a2, v2) in lst:
        if all(z3.eq(x, y) for x, y in zip(args, a2)):
            return v2, False
    v = z3.Real(ex.fresh_name(name))
    for (a2, v2) in lst:
        if CONGRUENCE[0] != 'full':
            break
        ex.add_axiom(z3.Implies(z3.And(*[x == y for x, y in zip(args, a2)]), v == v2), name + ': congruence')
        if mono and AX.get(name + '_mono', True):
            if mono > 0:
                ex.add_axiom(z3.And(z3.Implies(args[0] < a2[0], v < v2), z3.Implies(a2[0] < args[0], v2 < v)), name + ': strictly increasing')
            else:
                ex.add_axiom(z3.And(z3.Implies(args[0] < a2[0], v > v2), z3.Implies(a2[0] < args[0], v2 > v)), name + ': strictly decreasing')
    lst.append((args, v))
    return v, True


# which instantiated axioms accompany each application (harnesses switch on what their claims need;
# everything switched on is listed in the evidence under `axioms`)
AX_DEFAULT = {'sqrt_zero': True, 'sqrt_one': False, 'sqrt_exact': False, 'sqrt_mono': False,
              'atan_mono': True, 'atan2_scale': False, 'atan2_turn': False, 'odd_even': True, 'pythag': False,
              'congruence': 'full', 'f32_store_round': False, 'div_axiom': True}
AX = dict(AX_DEFAULT)


def set_axioms(**kw):
    """reset the axiom switches to their defaults, then apply kw (called at the start of a harness body)"""
    AX.clear()
    AX.update(AX_DEFAULT)
    for k, v in kw.items():
        if k not in AX_DEFAULT:
            raise KeyError(k)
        AX[k] = v
    CONGRUENCE[0] = AX['congruence']

SQRT_EXACT = [False]   # legacy switch (same as AX['sqrt_exact'])


def sym_sqrt(x):
    x = SF.lift(x)
    c = as_const(x)
    if c is not None:
        return math.sqrt(c) if c >= 0 else math.nan
    s, new = uf_app('sqrt', [x.v], mono=0)
    if new:
        a = EX.apps['sqrt'][-1][0][0]
        # s >= 0 is stated unconditionally (for a negative argument the result is flagged NaN and s is never used)
        EX.add_axiom(s >= 0, 'sqrt: s>=0')
        ax = []
        tags = []
        if AX['sqrt_zero']:
            ax.append((s == 0) == (a == 0))
            tags.append('s==0 iff x==0')
        if AX['sqrt_one']:
            ax += [(s == 1) == (a == 1), (s < 1) == (a < 1)]
            tags.append('s<1 iff x<1')
        if AX['sqrt_exact'] or SQRT_EXACT[0]:
            ax.append(s * s == a)
            tags.append('s*s==x')
        if ax:
            EX.add_axiom(z3.Implies(a >= 0, z3.And(*ax)), 'sqrt: ' + ', '.join(tags))
        if AX['sqrt_mono']:
            for (a2, v2) in EX.apps['sqrt'][:-1]:
                EX.add_axiom(z3.Implies(z3.And(a >= 0, a2[0] >= 0), z3.And(z3.Implies(a < a2[0], s < v2), z3.Implies(a2[0] < a, v2 < s))), 'sqrt: strictly increasing')
    neg = band(x.finite(), x.v < 0)
    return SF(bsimp(bor(x.nan, x.ninf, neg)), s, x.pinf, False)


def _f32_exact(t, depth=0):
    """is the term certainly representable in float32? (constants that are, results of earlier float32 stores, ite / negation of such)"""
    if depth > 40:
        return False
    if z3.is_rational_value(t):
        import struct
        fr = t.as_fraction()
        try:
            f = float(fr)
            return Fraction(struct.unpack('f', struct.pack('f', f))[0]) == fr
        except (OverflowError, struct.error):
            return False
    if z3.is_const(t):
        return t.decl().name().startswith('f32!')
    k = t.decl().kind()
    if k == z3.Z3_OP_ITE:
        return _f32_exact(t.arg(1), depth + 1) and _f32_exact(t.arg(2), depth + 1)
    if k == z3.Z3_OP_UMINUS:
        return _f32_exact(t.arg(0), depth + 1)
    return False


def f32_round(x):
    """opt-in model of storing a symbolic double into a float32 slot: the stored value is some real within a relative
    2^-25 of x (a subset of what round-to-nearest can produce, so every behaviour found is realisable when replayed)"""
    if not isinstance(x, SF):
        return x
    c = as_const(x)
    if c is not None:
        return c
    # idempotent and functional: a value that is already the result of a float32 store is representable (stored unchanged), and the same
    # term always rounds to the same stored value
    if _f32_exact(x.v):
        return x
    cx = canon(x.v)
    EX._keep.append(cx)          # keep the AST alive: its id is the cache key
    key = ('f32', cx.get_id())
    hit = EX.apps.get(key)
    if hit is not None:
        return SF(x.nan, hit, x.pinf, x.ninf)
    r = z3.Real(EX.fresh_name('f32'))
    EX.apps[key] = r
    eps = z3.RealVal(Fraction(1, 2 ** 25))
    av = z3.If(x.v >= 0, x.v, -x.v)
    EX.add_axiom(z3.And(r - x.v <= eps * av, x.v - r <= eps * av), 'float32 store: |stored - x| <= 2^-25 |x| (opt-in)')
    return SF(x.nan, r, x.pinf, x.ninf)


# ----------------------------------------------------------------- model evaluation

def ev(model, x):
    """evaluate a symbolic scalar under a model -> python value"""
    if isinstance(x, SF):
        def tb(b):
            return b if _isb(b) else z3.is_true(model.eval(b, model_completion=True))
        if tb(x.nan):
            return math.nan
        if tb(x.pinf):
            return math.inf
        if tb(x.ninf):
            return -math.inf
        r = model.eval(x.v, model_completion=True)
        if z3.is_algebraic_value(r):
            r = r.approx(30)
        try:
            return float(r.as_fraction())
        except Exception:
            return float(Fraction(r.as_string()))
    if isinstance(x, SI):
        return model.eval(x.t, model_completion=True).as_long()
    if isinstance(x, SB):
        return z3.is_true(model.eval(x.t, model_completion=True))
    if hasattr(x, 'dtype') and hasattr(x, 'item') and getattr(x, 'ndim', 1) == 0:
        return x.item()
    return x
