"""Replay worker: runs under /venv/bin/python with the real numba/numpy/dask/xarray and the
untouched xrspatial imported from the /repo working tree.  JSON lines on stdin/stdout."""
import importlib
import json
import os
import sys
import traceback

REPO = os.environ.get('SX_REPO', '/repo')
sys.path.insert(0, REPO)
sys.path.insert(0, os.path.dirname(os.path.dirname(os.path.abspath(__file__))))

import numpy as np  # noqa: E402

_real_stdout = sys.stdout
sys.stdout = sys.stderr   # keep library prints out of the protocol


def build(w):
    import xarray as xr
    if isinstance(w, list):
        return [build(v) for v in w]
    if not isinstance(w, dict):
        return w
    t = w.get('__t')
    if t is None:
        return {k: build(v) for k, v in w.items()}
    if t == 'tuple':
        return tuple(build(v) for v in w['v'])
    if t == 'dict':
        return {build(k): build(v) for k, v in w['items']}
    if t == 'nd':
        a = np.array(w['data'], dtype=w['dtype']).reshape(w['shape'])
        lay = w.get('layout', 'C')
        if lay == 'F':
            a = np.asfortranarray(a)
        elif lay == 'strided':
            big = np.zeros(tuple(2 * s + 1 for s in a.shape), dtype=a.dtype)
            view = big[tuple(slice(1, 2 * s + 1, 2) for s in a.shape)]
            view[...] = a
            a = view
        if w.get('writeable') is False:
            a.setflags(write=False)
        return a
    if t == 'dask':
        import dask.array as da
        a = build(w['whole'])
        return da.from_array(a, chunks=tuple(tuple(c) for c in w['chunks']))
    if t == 'da':
        data = build(w['data'])
        coords = {}
        for k, c in w['coords'].items():
            cd = build(c['data'])
            if c['dims']:
                coords[k] = (tuple(c['dims']), cd)
            else:
                coords[k] = cd if not isinstance(cd, np.ndarray) else cd[()]
        return xr.DataArray(data, coords=coords, dims=tuple(w['dims']), attrs=build(w['attrs']), name=w.get('name'))
    if t == 'ds':
        return xr.Dataset({k: build(v) for k, v in w['vars'].items()}, attrs=build(w.get('attrs', {})))
    if t == 'func':
        from sx import userfuncs
        return getattr(userfuncs, w['name'] + '_numba', None) or getattr(userfuncs, w['name'])
    if t == 'libfunc':
        return resolve(w['module'], w['name'])
    if t == 'scalar':
        return np.dtype(w['dtype']).type(w['v'])
    if t == 'labels':
        return np.array(w['v'], dtype=object) if any(not isinstance(x, str) for x in w['v']) else np.array(w['v'])
    raise ValueError("unknown wire type %r" % t)


def _num(v):
    if isinstance(v, np.generic):
        v = v.item()
    if isinstance(v, float):
        return v
    return v


def dump(o):
    import xarray as xr
    try:
        import dask.array as da
        import dask.dataframe as dd
    except Exception:
        da = dd = None
    import pandas as pd
    if o is None or isinstance(o, (bool, int, float, str)):
        return o
    if isinstance(o, np.generic):
        return {'__t': 'scalar', 'v': o.item(), 'dtype': str(o.dtype)}
    if isinstance(o, np.ndarray):
        if o.dtype == object or o.dtype.kind in 'UST':
            return {'__t': 'labels', 'v': [x if isinstance(x, str) else _num(x) for x in o.ravel().tolist()]}
        return {'__t': 'nd', 'data': o.ravel().tolist(), 'dtype': str(o.dtype), 'shape': list(o.shape),
                'writeable': bool(o.flags.writeable)}
    if da is not None and isinstance(o, da.Array):
        w = np.asarray(o.compute())
        return {'__t': 'dask', 'whole': dump(w), 'chunks': [list(c) for c in o.chunks] if not any(np.isnan(c).any() for c in map(np.asarray, o.chunks)) else None}
    if dd is not None and isinstance(o, dd.DataFrame):
        r = dump(o.compute())
        r['lazy'] = True
        return r
    if isinstance(o, pd.DataFrame):
        return {'__t': 'df', 'cols': [[c if isinstance(c, str) else _num(c), [_num(v) for v in o[c].tolist()]] for c in o.columns]}
    if isinstance(o, xr.DataArray):
        coords = {}
        for k, c in o.coords.items():
            coords[str(k)] = {'dims': list(c.dims), 'data': dump(np.asarray(c.values))}
        return {'__t': 'da', 'data': dump(o.data), 'dims': list(o.dims), 'coords': coords,
                'attrs': dump(dict(o.attrs)), 'name': o.name if isinstance(o.name, (str, type(None))) else str(o.name)}
    if isinstance(o, xr.Dataset):
        return {'__t': 'ds', 'vars': {str(k): dump(v) for k, v in o.data_vars.items()}, 'attrs': dump(dict(o.attrs))}
    if isinstance(o, tuple):
        return {'__t': 'tuple', 'v': [dump(v) for v in o]}
    if isinstance(o, list):
        return [dump(v) for v in o]
    if isinstance(o, dict):
        if all(isinstance(k, str) for k in o):
            return {k: dump(v) for k, v in o.items()}
        return {'__t': 'dict', 'items': [[dump(k), dump(v)] for k, v in o.items()]}
    if callable(o):
        return {'__t': 'func', 'name': getattr(o, '__name__', 'callable')}
    return {'__t': 'repr', 'v': repr(o)}


def _arr(o):
    import xarray as xr
    if isinstance(o, xr.DataArray):
        o = o.data
    if isinstance(o, np.ndarray):
        return o
    return None


def _shares(ret, arg):
    import xarray as xr
    rets = list(ret.data_vars.values()) if isinstance(ret, xr.Dataset) else (list(ret) if isinstance(ret, (tuple, list)) else [ret])
    a = _arr(arg)
    if a is None:
        return False
    for r in rets:
        r = _arr(r)
        if r is not None and np.shares_memory(r, a):
            return True
    return False


def resolve(module, func):
    m = importlib.import_module(module)
    o = m
    for part in func.split('.'):
        o = getattr(o, part)
    return o


def handle(req):
    op = req['op']
    if op == 'ping':
        import xrspatial
        return {'ok': True, 'file': xrspatial.__file__}
    if op == 'call':
        f = resolve(req['module'], req['func'])
        args = [build(a) for a in req.get('args', [])]
        kwargs = {k: build(v) for k, v in req.get('kwargs', {}).items()}
        try:
            ret = f(*args, **kwargs)
            if req.get('compute') and hasattr(ret, 'compute'):
                ret = ret.compute()
            return {'ok': True, 'ret': dump(ret), 'args_after': [dump(a) for a in args], 'shares': [_shares(ret, a) for a in args]}
        except Exception as e:  # the exception is part of the observable behaviour
            return {'ok': False, 'exc': type(e).__name__, 'msg': str(e)[:500]}
    if op == 'joint':
        # several library calls whose lazy (dask-backed) results are evaluated together in ONE graph: dask.compute(r1.data, r2.data, ...)
        import dask
        import xarray as xr
        try:
            rets = []
            for c in req['calls']:
                f = resolve(c['module'], c['func'])
                args = [build(a) for a in c.get('args', [])]
                kwargs = {k: build(v) for k, v in c.get('kwargs', {}).items()}
                rets.append(f(*args, **kwargs))
            datas = [r.data if isinstance(r, xr.DataArray) else r for r in rets]
            computed = dask.compute(*datas)
            out = []
            for r, w in zip(rets, computed):
                out.append(dump(r.copy(data=np.asarray(w)) if isinstance(r, xr.DataArray) else np.asarray(w)))
            return {'ok': True, 'ret': out}
        except Exception as e:
            return {'ok': False, 'exc': type(e).__name__, 'msg': str(e)[:500]}
    if op == 'script':
        # run a helper from sx.worker_ext (shim self-tests, dask differential)
        from sx import worker_ext
        return {'ok': True, 'ret': getattr(worker_ext, req['name'])(*req.get('args', []))}
    raise ValueError(op)


def main():
    for line in sys.stdin:
        line = line.strip()
        if not line:
            continue
        try:
            resp = handle(json.loads(line))
        except Exception as e:
            resp = {'ok': False, 'exc': 'WorkerError:' + type(e).__name__, 'msg': traceback.format_exc()[-1500:]}
        _real_stdout.write(json.dumps(resp) + "\n")
        _real_stdout.flush()


if __name__ == '__main__':
    main()
