"""runtime helpers called by code rewritten by sx.astmerge, plus symbolic-aware builtins
injected into every loaded module."""
import builtins as _bi

import numpy as _np
import z3

from . import core as sc
from .core import SF, SI, SB, mkbool, bt, band, bor, bnot, sym_ite

STATS = {'merged': 0, 'forked_assign': 0}
MERGE_DEPTH = [0]


def cond(c):
    if isinstance(c, _np.bool_):
        return bool(c)
    if isinstance(c, (SF, SI)):
        return mkbool(bt(c))
    return c


def concrete(c):
    return not isinstance(c, SB)


def not_(x):
    if isinstance(x, SB):
        return mkbool(z3.Not(x.t))
    if isinstance(x, (SF, SI)):
        return mkbool(bnot(bt(x)))
    return not x


def and2(a, b):
    if isinstance(a, SB) or isinstance(b, SB):
        if a is False or b is False:
            return False
        return mkbool(band(bt(a), bt(b)))
    return bool(a) and bool(b)


def _symb(v):
    return isinstance(v, SB)


def _guarded_eval(th, acc, want):
    """evaluate the next operand of a short-circuit chain whose prefix `acc` is symbolic.
    Python would only evaluate it when the prefix is `want`; if evaluating it raises, fork on the prefix."""
    MERGE_DEPTH[0] += 1
    try:
        try:
            return th(), False
        except sc.Inconclusive:
            raise
        except Exception:
            pass
    finally:
        MERGE_DEPTH[0] -= 1
    if bool(acc) == want:
        return th(), False      # the operand really is evaluated on this path: let the exception propagate
    return None, True           # short-circuited


def and_(*thunks):
    acc = None
    last = thunks[-1]
    for th in thunks:
        if acc is None:
            v = th()
        else:
            v, cut = _guarded_eval(th, acc, True)
            if cut:
                return False
        if isinstance(v, (SF, SI)) and th is not last:
            v = mkbool(bt(v))
        if not _symb(v):
            if isinstance(v, (SF, SI)):
                # value position (last operand): python returns the operand itself
                if acc is None:
                    return v
                v = mkbool(bt(v))
                if not _symb(v):
                    if not v:
                        return False
                    continue
            else:
                if not v:
                    if acc is None:
                        return v
                    return False
                if acc is None and th is last:
                    return v
                continue
        acc = v if acc is None else mkbool(band(bt(acc), v.t))
        if acc is False:
            return False
        if acc is True:
            acc = None
    return True if acc is None else acc


def or_(*thunks):
    acc = None
    last = thunks[-1]
    for th in thunks:
        if acc is None:
            v = th()
        else:
            v, cut = _guarded_eval(th, acc, False)
            if cut:
                return True
        if isinstance(v, (SF, SI)) and th is not last:
            v = mkbool(bt(v))
        if not _symb(v):
            if isinstance(v, (SF, SI)):
                if acc is None:
                    return v
                v = mkbool(bt(v))
                if not _symb(v):
                    if v:
                        return True
                    continue
            else:
                if v:
                    if acc is None:
                        return v
                    return True
                if acc is None and th is last:
                    return v
                continue
        acc = v if acc is None else mkbool(bor(bt(acc), v.t))
        if acc is True:
            return True
        if acc is False:
            acc = None
    return False if acc is None else acc


def _num(x):
    return isinstance(x, (SF, SI, int, float, _np.generic)) and not isinstance(x, (bool, SB, _np.bool_))


def _boolish(x):
    return isinstance(x, (SB, bool, _np.bool_))


def _ite(g, new, old):
    if new is old:
        return new
    if _boolish(new) and _boolish(old):
        STATS['merged'] += 1
        return sym_ite(g.t, bt(new) if not isinstance(new, SB) else new, bt(old) if not isinstance(old, SB) else old)
    if _num(new) and _num(old):
        STATS['merged'] += 1
        if isinstance(new, _np.generic):
            new = new.item()
        if isinstance(old, _np.generic):
            old = old.item()
        return sym_ite(g.t, new, old)
    if isinstance(new, tuple) and isinstance(old, tuple) and len(new) == len(old):
        return tuple(_ite(g, a, b) for a, b in zip(new, old))
    STATS['forked_assign'] += 1
    return new if bool(g) else old


def ifexp(c, a, b):
    if isinstance(c, (SF, SI)):
        c = mkbool(bt(c))
    if not isinstance(c, SB):
        return a() if c else b()
    MERGE_DEPTH[0] += 1
    try:
        try:
            va = a()
            vb = b()
        except sc.Inconclusive:
            raise
        except Exception:
            va = vb = None
            failed = True
        else:
            failed = False
    finally:
        MERGE_DEPTH[0] -= 1
    if failed:
        return a() if bool(c) else b()
    return _ite(c, va, vb)


def gassign(g, new_thunk, old_thunk):
    if isinstance(g, (SF, SI)):
        g = mkbool(bt(g))
    if not isinstance(g, SB):
        return new_thunk() if g else old_thunk()
    try:
        old = old_thunk()
    except (NameError, UnboundLocalError):
        old = _UNSET
    MERGE_DEPTH[0] += 1
    try:
        try:
            new = new_thunk()
            failed = False
        except sc.Inconclusive:
            raise
        except Exception:
            failed = True
    finally:
        MERGE_DEPTH[0] -= 1
    if failed:
        # evaluating the guarded side is only safe when the guard holds: fork
        if bool(g):
            return new_thunk()
        if old is _UNSET:
            raise sc.ShimMissing("guarded assignment to an unset name on the not-taken side")
        return old
    if old is _UNSET:
        return new
    return _ite(g, new, old)


class _Unset:
    pass


_UNSET = _Unset()
_FAILED = _Unset()


def geval(g, thunk):
    """evaluate a right-hand side that is only meaningful under guard g"""
    if isinstance(g, (SF, SI)):
        g = mkbool(bt(g))
    if not isinstance(g, SB):
        return thunk() if g else _FAILED
    MERGE_DEPTH[0] += 1
    try:
        try:
            return thunk()
        except sc.Inconclusive:
            raise
        except Exception:
            return (_FAILED, thunk)
    finally:
        MERGE_DEPTH[0] -= 1


def gassign_val(g, new, old_thunk):
    if isinstance(g, (SF, SI)):
        g = mkbool(bt(g))
    if not isinstance(g, SB):
        return new if g else old_thunk()
    if isinstance(new, tuple) and len(new) == 2 and new[0] is _FAILED:
        return gassign(g, new[1], old_thunk)
    return gassign(g, lambda: new, old_thunk)


# ----------------------------------------------------------------- symbolic-aware builtins
def _issym(v):
    return isinstance(v, (SF, SI, SB))


def s_min(*a, **k):
    if len(a) == 1 and not k:
        vals = list(a[0].flat_values()) if hasattr(a[0], 'flat_values') else list(a[0])
    else:
        vals = list(a)
    if k or not _bi.any(_issym(v) for v in vals):
        return _bi.min(*a, **k)
    m = vals[0]
    for v in vals[1:]:
        m = sym_ite(bt(v < m), v, m)   # python semantics: first minimal element kept
    return m


def s_max(*a, **k):
    if len(a) == 1 and not k:
        vals = list(a[0].flat_values()) if hasattr(a[0], 'flat_values') else list(a[0])
    else:
        vals = list(a)
    if k or not _bi.any(_issym(v) for v in vals):
        return _bi.max(*a, **k)
    m = vals[0]
    for v in vals[1:]:
        m = sym_ite(bt(v > m), v, m)
    return m


def s_len(x):
    from . import symnp
    return symnp.sym_len(x)


class _FloatMeta(type):
    def __instancecheck__(cls, obj):
        return _bi.isinstance(obj, _bi.float)

    def __subclasscheck__(cls, sub):
        return _bi.issubclass(sub, _bi.float)


class s_float(_bi.float, metaclass=_FloatMeta):
    """`float` as seen by loaded modules: isinstance/issubclass behave like the builtin, calls pass symbolic values through"""

    def __new__(cls, x=0.0):
        if isinstance(x, SF):
            return x
        if isinstance(x, (SI, SB)):
            return SF.lift(x)
        if hasattr(x, 'flat_values'):
            return s_float(x.item())
        return _bi.float(x)


class _IntMeta(type):
    def __instancecheck__(cls, obj):
        return _bi.isinstance(obj, _bi.int)

    def __subclasscheck__(cls, sub):
        return _bi.issubclass(sub, _bi.int)


class s_int(_bi.int, metaclass=_IntMeta):
    def __new__(cls, x=0, *a):
        if isinstance(x, SF):
            c = sc.as_const(x)
            if c is not None:
                return _bi.int(c)
            return sc.concretize_int(sc.sym_trunc_int(x))
        if isinstance(x, SI):
            return sc.concretize_int(x)
        if isinstance(x, SB):
            return sc.concretize_int(SI.lift(x))
        if hasattr(x, 'flat_values'):
            return s_int(x.item())
        return _bi.int(x, *a)


def s_bool(x=False):
    if isinstance(x, SB):
        return x
    if isinstance(x, (SF, SI)):
        return mkbool(bt(x))
    return _bi.bool(x)


def s_sum(it, start=0):
    r = start
    for v in it:
        if isinstance(v, SB):
            v = SI.lift(v)
        r = r + v
    return r


def s_any(it):
    vals = list(it.flat_values()) if hasattr(it, 'flat_values') else list(it)
    if not _bi.any(_issym(v) for v in vals):
        return _bi.any(vals)
    return mkbool(bor(*[bt(v) for v in vals]))


def s_all(it):
    vals = list(it.flat_values()) if hasattr(it, 'flat_values') else list(it)
    if not _bi.any(_issym(v) for v in vals):
        return _bi.all(vals)
    return mkbool(band(*[bt(v) for v in vals]))


def s_round(x, nd=None):
    if _issym(x):
        raise sc.ShimMissing("round() of symbolic value")
    return _bi.round(x, nd) if nd is not None else _bi.round(x)


def s_isinstance(obj, cls):
    # symbolic scalars pass for the python/numpy scalar types they stand for
    if isinstance(obj, SF):
        if cls is float or (isinstance(cls, tuple) and float in cls):
            return True
    if isinstance(obj, SI):
        if cls is int or (isinstance(cls, tuple) and int in cls):
            return True
    return _bi.isinstance(obj, cls)


def make_builtins(strict_isinstance=True):
    d = dict(_bi.__dict__)
    d.update(min=s_min, max=s_max, len=s_len, float=s_float, int=s_int, sum=s_sum, any=s_any, all=s_all, round=s_round,
             print=lambda *a, **k: None)
    d['_sx_rt_'] = __import__('sx.rt', fromlist=['rt'])
    if not strict_isinstance:
        d['isinstance'] = s_isinstance
    return d
