"""Load the real /repo/xrspatial/*.py source with numpy/numba/math/xarray/dask/pandas shimmed.

Every call of load() with fresh=True re-reads the files from the working tree (no
bytecode cache, no installed copy), runs them through the AST pre-pass and executes
them with a builtins dict in which min/max/len/int/float/... are symbolic-aware.
"""
import builtins
import hashlib
import importlib
import importlib.abc
import importlib.machinery
import importlib.util
import os
import sys
import types

from . import astmerge, rt, symnp, symmath, symxr, symda, minipd
from . import core as sc

REPO = os.environ.get('SX_REPO', '/repo')
MERGE = [True]
SOURCES = {}   # module name -> sha256 of the source that was loaded


class _L(importlib.machinery.SourceFileLoader):
    def source_to_code(self, data, path, *, _optimize=-1):
        src = data.decode() if isinstance(data, bytes) else data
        return astmerge.transform_source(src, path, merge=MERGE[0])

    def get_code(self, fullname):
        fn = self.get_filename(fullname)
        src = self.get_data(fn)
        SOURCES[fullname] = hashlib.sha256(src).hexdigest()[:16]
        return self.source_to_code(src, fn)

    def exec_module(self, module):
        module.__dict__['__builtins__'] = rt.make_builtins()
        super().exec_module(module)


class _F(importlib.abc.MetaPathFinder):
    def __init__(self, repo):
        self.repo = repo

    def find_spec(self, name, path, target=None):
        if not name.startswith('xrspatial.'):
            return None
        rel = name.split('.')[1:]
        base = os.path.join(self.repo, 'xrspatial', *rel)
        if os.path.isdir(base):
            fn = os.path.join(base, '__init__.py')
            return importlib.util.spec_from_file_location(name, fn, loader=_L(name, fn), submodule_search_locations=[base])
        fn = base + '.py'
        if os.path.exists(fn):
            return importlib.util.spec_from_file_location(name, fn, loader=_L(name, fn))
        return None


def _ident_decorator(*a, **k):
    if len(a) == 1 and callable(a[0]) and not k:
        return a[0]
    return lambda f: f


def _jit_wrap(f):
    """numba.jit stand-in: runs the Python source, but marks 'inside compiled code' so that scalar division follows Numba's default
    error model (error_model='python': float or integer division by zero raises ZeroDivisionError; array expressions keep NumPy semantics)"""
    import functools

    @functools.wraps(f)
    def w(*a, **k):
        sc.JIT_DEPTH += 1
        try:
            return f(*a, **k)
        finally:
            sc.JIT_DEPTH -= 1
    w.py_func = f
    return w


def _jit_decorator(*a, **k):
    if len(a) == 1 and callable(a[0]) and not k:
        return _jit_wrap(a[0])
    if k.get('error_model') == 'numpy':
        return lambda f: f
    return _jit_wrap


class _Any:
    def __getattr__(self, n):
        return _Any()

    def __call__(self, *a, **k):
        return _Any()

    def __getitem__(self, k):
        return _Any()


class FakeMod(types.ModuleType):
    def __getattr__(self, n):
        if n.startswith('__'):
            raise AttributeError(n)
        return _Any()


GENERATED = []


def make_fakes():
    fakes = {}
    nb = types.ModuleType('numba')
    nb.jit = _jit_decorator
    nb.njit = _jit_decorator
    nb.vectorize = _ident_decorator
    nb.guvectorize = _ident_decorator
    nb.stencil = _ident_decorator
    nb.prange = range
    cuda = types.ModuleType('numba.cuda')
    cuda.jit = _ident_decorator
    cuda.grid = lambda n: (0, 0)
    cuda.is_available = lambda: False

    class CudaSupportError(Exception):
        pass

    class _G:
        @property
        def current(self):
            raise CudaSupportError()
    cuda.cudadrv = types.SimpleNamespace(error=types.SimpleNamespace(CudaSupportError=CudaSupportError),
                                         devices=types.SimpleNamespace(gpus=_G()))
    nb.cuda = cuda
    for n in ('float32', 'float64', 'int8', 'int16', 'int32', 'int64', 'uint8', 'uint16', 'uint32', 'uint64', 'boolean'):
        setattr(nb, n, _Any())
    ext = types.ModuleType('numba.extending')

    def overload(func, **k):
        def reg(impl):
            GENERATED.append((func, impl))
            return impl
        return reg

    def generated_jit(*a, **k):
        def deco(gen):
            def disp(*args):
                tys = [_nbtype(x) for x in args]
                return gen(*tys)(*args)
            disp.__name__ = gen.__name__
            disp.__wrapped_generator__ = gen
            return disp
        if len(a) == 1 and callable(a[0]) and not k:
            return deco(a[0])
        return deco
    ext.overload = overload
    nb.generated_jit = generated_jit

    class Integer:
        pass

    class Float:
        pass

    class Boolean:
        pass
    nb.types = types.SimpleNamespace(Integer=Integer, Float=Float, Boolean=Boolean)
    nb.typed = types.SimpleNamespace(List=list, Dict=dict)
    nb.extending = ext
    fakes['numba'] = nb
    fakes['numba.cuda'] = cuda
    fakes['numba.extending'] = ext
    fakes['numba.types'] = nb.types
    fakes['numpy'] = symnp
    fakes['math'] = symmath
    xr = types.ModuleType('xarray')
    xr.DataArray = symxr.DataArray
    xr.Dataset = symxr.Dataset
    xr.concat = symxr.concat
    xr.merge = symxr.merge
    fakes['xarray'] = xr
    da = symda
    dask = types.ModuleType('dask')
    dask.array = da
    dask.delayed = symda.delayed
    dask.compute = symda.compute

    def _tokenize(*args, **kw):
        # dask.base.tokenize is deterministic in the *content* of its arguments; the shim only sees shape / chunks / dtype of arrays, so distinct
        # arrays of equal geometry share a token here (an over-approximation: it can only add graph-key collisions, which the replay then refutes)
        parts = []
        for a in args:
            if isinstance(a, symda.Array):
                parts.append('arr%r%r' % (tuple(a.shape), a.chunks))
            elif isinstance(a, symnp.SymArray):
                parts.append('nd%r' % (tuple(a.shape),))
            else:
                parts.append(repr(a)[:40])
        import hashlib as _h
        return _h.md5('|'.join(parts).encode()).hexdigest()
    dask.base = types.SimpleNamespace(tokenize=_tokenize)
    dask.tokenize = _tokenize
    symda.tokenize = _tokenize
    dd = types.ModuleType('dask.dataframe')
    dd.concat = minipd.concat
    dd.from_dask_array = minipd.from_dask_array
    dd.from_delayed = minipd.from_delayed
    dd.from_pandas = minipd.from_pandas
    dd.DataFrame = minipd.DataFrame
    dd.core = types.SimpleNamespace(DataFrame=minipd.DataFrame)
    dask.dataframe = dd
    fakes['dask'] = dask
    fakes['dask.array'] = da
    fakes['dask.dataframe'] = dd
    pd = types.ModuleType('pandas')
    pd.DataFrame = minipd.DataFrame
    pd.Series = minipd.Series
    pd.Index = minipd.Index
    pd.concat = minipd.concat
    pd.unique = minipd.unique
    fakes['pandas'] = pd
    ds = FakeMod('datashader')
    tf = FakeMod('datashader.transfer_functions')
    col = FakeMod('datashader.colors')
    col.rgb = None
    ds.transfer_functions = tf
    ds.colors = col
    fakes['datashader'] = ds
    fakes['datashader.transfer_functions'] = tf
    fakes['datashader.colors'] = col
    fakes['cupy'] = None
    fakes['requests'] = FakeMod('requests')
    return fakes


def _nbtype(x, T=None):
    if T is None:
        T = sys.modules.get('numba').types
    if isinstance(x, (bool, sc.SB)):
        return T.Boolean()
    if isinstance(x, (int, sc.SI)) or (hasattr(x, 'dtype') and x.dtype.kind in 'iu'):
        return T.Integer()
    return T.Float()


class Loaded:
    """a set of xrspatial modules loaded together against one set of fakes"""

    def __init__(self, repo=None):
        self.repo = repo or REPO
        self.fakes = make_fakes()
        self.mods = {}

    def load(self, modname):
        full = 'xrspatial.' + modname
        if full in self.mods:
            return self.mods[full]
        fakes = self.fakes
        keys = list(fakes)
        saved = {k: sys.modules.get(k, _MISSING) for k in keys}
        saved_x = {k: v for k, v in sys.modules.items() if k == 'xrspatial' or k.startswith('xrspatial.')}
        for k in saved_x:
            del sys.modules[k]
        finder = _F(self.repo)
        try:
            for k, v in fakes.items():
                sys.modules[k] = v
            pkg = getattr(self, 'pkg', None)
            if pkg is None:
                pkg = self.pkg = _Pkg('xrspatial')
                pkg.__path__ = [self.repo + '/xrspatial']
                pkg.__dict__['_sx_repo'] = self.repo
            sys.modules['xrspatial'] = pkg
            for k, v in self.mods.items():
                sys.modules[k] = v
            self._fix_exports(pkg)
            sys.meta_path.insert(0, finder)
            n0 = len(GENERATED)
            m = importlib.import_module(full)
            for k, v in list(sys.modules.items()):
                if k.startswith('xrspatial.') and isinstance(v, types.ModuleType):
                    self.mods[k] = v
            # numba.extending.overload: rebind generated functions to a two-stage dispatcher
            for (func, impl) in GENERATED[n0:]:
                for mod in list(self.mods.values()):
                    if getattr(mod, func.__name__, None) is func:
                        def make(impl, T=fakes['numba'].types):
                            def disp(*args):
                                return impl(*[_nbtype(a, T) for a in args])(*args)
                            disp.__name__ = func.__name__
                            return disp
                        setattr(mod, func.__name__, make(impl))
            self._fix_exports(pkg)
            return m
        finally:
            try:
                sys.meta_path.remove(finder)
            except ValueError:
                pass
            for k in [k for k in sys.modules if k == 'xrspatial' or k.startswith('xrspatial.')]:
                del sys.modules[k]
            for k, v in saved.items():
                if v is _MISSING:
                    sys.modules.pop(k, None)
                else:
                    sys.modules[k] = v
            sys.modules.update(saved_x)


class _Pkg(types.ModuleType):
    """stand-in for the xrspatial package: resolves the names its real __init__.py re-exports, lazily"""

    def __getattr__(self, name):
        if name.startswith('__'):
            raise AttributeError(name)
        exports = self.__dict__.get('_sx_exports')
        if exports is None:
            exports = _parse_init(self.__dict__['_sx_repo'])
            self.__dict__['_sx_exports'] = exports
        if name in exports:
            mod, attr = exports[name]
            m = importlib.import_module('xrspatial.' + mod)
            v = getattr(m, attr)
            self.__dict__[name] = v     # like the real __init__: the re-exported function shadows the submodule
            return v
        raise AttributeError(name)


def _parse_init(repo):
    import ast
    out = {}
    try:
        tree = ast.parse(open(os.path.join(repo, 'xrspatial', '__init__.py')).read())
    except OSError:
        return out
    for node in tree.body:
        if isinstance(node, ast.ImportFrom) and node.module and node.module.startswith('xrspatial.'):
            for a in node.names:
                out[a.asname or a.name] = (node.module[len('xrspatial.'):], a.name)
    return out


def _fix_exports(self, pkg):
    exports = pkg.__dict__.get('_sx_exports')
    if exports is None:
        exports = pkg.__dict__['_sx_exports'] = _parse_init(self.repo)
    for alias, (mod, attr) in exports.items():
        m = self.mods.get('xrspatial.' + mod) or sys.modules.get('xrspatial.' + mod)
        if m is not None and hasattr(m, attr):
            pkg.__dict__[alias] = getattr(m, attr)


Loaded._fix_exports = _fix_exports
_MISSING = object()
_default = None


def load(modname, fresh=False):
    """import xrspatial.<modname> from the working tree with shims (cached per process unless fresh)."""
    global _default
    if fresh or _default is None:
        _default = Loaded()
    return _default.load(modname)


def fresh_instance():
    return Loaded()


def function_hashes(funcs):
    """evidence helper: {qualified name: sha of the function's source lines}"""
    import inspect
    out = {}
    for f in funcs:
        try:
            src = inspect.getsource(f)
        except Exception:
            src = repr(f)
        out["%s.%s" % (getattr(f, '__module__', '?'), getattr(f, '__qualname__', getattr(f, '__name__', '?')))] = hashlib.sha256(src.encode()).hexdigest()[:12]
    return out
