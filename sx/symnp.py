"""NumPy shim: SymArray = shared python-list buffer + concrete numpy index map.

Loaded modules see this module as `numpy`. Anything not provided here is
delegated to real numpy when all arguments are concrete and raises
ShimMissing (-> inconclusive) otherwise.
"""
import builtins as _bi
import itertools
import math
import sys
import types

import numpy as _np
import z3

from . import core as sc
from .core import SF, SI, SB, mkbool, bt, band, bor, bnot, bite, bz3, sym_ite, as_const, ShimMissing

nan = float('nan')
inf = float('inf')
pi = math.pi
e = math.e
newaxis = None
NaN = nan


# ----------------------------------------------------------------- scalar types
def _mk(base):
    class T(base):
        def __new__(cls, x=0):
            if isinstance(x, (SF, SI, SB)):
                k = _np.dtype(base).kind
                if k == 'f':
                    return SF.lift(x)
                if k in 'iu':
                    if isinstance(x, SF):
                        return sc.sym_trunc_int(x)
                    return SI.lift(x)
                return x
            if isinstance(x, SymArray):
                return x.astype(base)
            return base.__new__(cls, x)
    T.__name__ = base.__name__
    T.__qualname__ = base.__name__
    return T


float16 = _np.float16
float32 = _mk(_np.float32)
float64 = _mk(_np.float64)
int8 = _mk(_np.int8)
int16 = _mk(_np.int16)
int32 = _mk(_np.int32)
int64 = _mk(_np.int64)
uint8 = _mk(_np.uint8)
uint16 = _mk(_np.uint16)
uint32 = _mk(_np.uint32)
uint64 = _mk(_np.uint64)
bool_ = _np.bool_
integer = _np.integer
floating = _np.floating
number = _np.number
generic = _np.generic
signedinteger = _np.signedinteger
unsignedinteger = _np.unsignedinteger
dtype = _np.dtype
iinfo = _np.iinfo
finfo = _np.finfo
result_type = None  # defined below
errstate = _np.errstate
float_ = float64
int_ = int64


def _dt(d, default=_np.float64):
    if d is None:
        return _np.dtype(default)
    if isinstance(d, type) and not issubclass(d, _np.generic):
        # python scalar types (incl. the symbolic-aware float / int stand-ins injected into loaded modules)
        if issubclass(d, bool):
            return _np.dtype('bool')
        if issubclass(d, float):
            return _np.dtype('float64')
        if issubclass(d, int):
            return _np.dtype('int64')
    return _np.dtype(d)


def _is_sym(x):
    return isinstance(x, (SF, SI, SB))


def _unnp(v):
    if isinstance(v, _np.generic):
        return v.item()
    return v


# ----------------------------------------------------------------- array
class _Flags:
    def __init__(self, a):
        self._a = a

    @property
    def writeable(self):
        return self._a._wr

    @writeable.setter
    def writeable(self, v):
        self._a._wr = bool(v)

    @property
    def c_contiguous(self):
        return self._a._contig('C')

    @property
    def f_contiguous(self):
        return self._a._contig('F')

    def __getitem__(self, k):
        return {'WRITEABLE': self._a._wr, 'C_CONTIGUOUS': self.c_contiguous, 'F_CONTIGUOUS': self.f_contiguous}[k]


class SymArray:
    __array_priority__ = 1000

    def __init__(self, buf, idx, dtype, writeable=True):
        self._buf = buf
        self._idx = idx
        self.dtype = _np.dtype(dtype)
        self._wr = writeable

    # ---- construction
    @staticmethod
    def from_list(vals, shape, dtype, cast=False):
        buf = list(vals)
        idx = _np.arange(len(buf)).reshape(shape)
        a = SymArray(buf, idx, dtype)
        if cast:
            a._buf = [a._cast(v) for v in a._buf]
        return a

    # ---- basic attributes
    @property
    def shape(self):
        return self._idx.shape

    @property
    def ndim(self):
        return self._idx.ndim

    @property
    def size(self):
        return int(self._idx.size)

    @property
    def T(self):
        return SymArray(self._buf, self._idx.T, self.dtype, self._wr)

    def transpose(self, *axes):
        return SymArray(self._buf, self._idx.transpose(*axes), self.dtype, self._wr)

    @property
    def flags(self):
        return _Flags(self)

    def setflags(self, write=None):
        if write is not None:
            self._wr = bool(write)

    @property
    def nbytes(self):
        return self.size * self.dtype.itemsize

    @property
    def itemsize(self):
        return self.dtype.itemsize

    @property
    def data(self):
        return self

    @property
    def values(self):
        return self

    @property
    def flat(self):
        return iter(self.flat_values())

    @property
    def real(self):
        return self

    def _contig(self, order):
        if self.size == 0:
            return True
        r = self._idx.ravel(order=order)
        return bool(_np.all(_np.diff(r) == 1)) if r.size > 1 else True

    def __len__(self):
        if self.ndim == 0:
            raise TypeError("len() of unsized object")
        return self._idx.shape[0]

    # ---- indexing
    def _conv_key(self, key):
        if isinstance(key, tuple):
            return tuple(self._conv_key1(k) for k in key)
        return self._conv_key1(key)

    def _conv_key1(self, k):
        if isinstance(k, (SI, SF)):
            c = as_const(k)
            if c is not None:
                return int(c)
            if isinstance(k, SI):
                return k.__index__()
            raise IndexError("float index")
        if isinstance(k, SymArray):
            if k.dtype == _np.bool_:
                return _np.array([bool(v) for v in k.flat_values()], dtype=bool).reshape(k.shape)
            return _np.array([int(v) for v in k.flat_values()], dtype=int).reshape(k.shape)
        if isinstance(k, list):
            return [int(v) if not isinstance(v, (bool, _np.bool_)) else bool(v) for v in k] if not (k and isinstance(k[0], (bool, _np.bool_, SB))) else _np.array([bool(v) for v in k])
        if isinstance(k, slice):
            def c(v):
                return None if v is None else int(v)
            return slice(c(k.start), c(k.stop), c(k.step))
        return k

    def __getitem__(self, key):
        # symbolic scalar index -> ite chain over a small array
        if isinstance(key, tuple) and _bi.any(isinstance(k, SI) and as_const(k) is None for k in key):
            return self._sym_get(key)
        if isinstance(key, SI) and as_const(key) is None:
            return self._sym_get((key,))
        if isinstance(key, SymArray) and key.dtype == _np.bool_ and _bi.any(isinstance(v, SB) for v in key.flat_values()):
            return MaskedSel.from_mask(self, key)
        key = self._conv_key(key)
        sub = self._idx[key]
        if isinstance(sub, _np.ndarray):
            if _np.shares_memory(sub, self._idx):
                return SymArray(self._buf, sub, self.dtype, self._wr)
            return SymArray.from_list([self._buf[i] for i in sub.ravel()], sub.shape, self.dtype)
        return self._buf[int(sub)]

    def _sym_get(self, key):
        """read with symbolic integer indices: ite chain (<= 64 cells) - out of range is assumed away"""
        dims = []
        for ax, k in enumerate(key):
            if isinstance(k, SI) and as_const(k) is None:
                dims.append([(i, k.t == i) for i in range(self.shape[ax])])
            else:
                kk = self._conv_key1(k)
                if not isinstance(kk, int):
                    raise ShimMissing("mixed symbolic/slice index")
                if kk < 0:
                    kk += self.shape[ax]
                dims.append([(kk, True)])
        combos = list(itertools.product(*dims))
        if len(combos) > 64:
            # concretise instead
            ck = tuple(k.__index__() if isinstance(k, SI) else k for k in key)
            return self[ck]
        inrange = bor(*[band(*[c for (_, c) in combo]) for combo in combos])
        sc.EX.assume(inrange)
        res = None
        for combo in reversed(combos):
            pos = tuple(i for (i, _) in combo)
            val = self._buf[int(self._idx[pos])] if len(pos) == self.ndim else None
            if val is None:
                raise ShimMissing("partial symbolic index")
            cond = band(*[c for (_, c) in combo])
            res = val if res is None else sym_ite(cond, val, res)
        return res

    def _sym_set(self, key, val):
        dims = []
        for ax, k in enumerate(key):
            if isinstance(k, SI) and as_const(k) is None:
                dims.append([(i, k.t == i) for i in range(self.shape[ax])])
            else:
                kk = self._conv_key1(k)
                if kk < 0:
                    kk += self.shape[ax]
                dims.append([(kk, True)])
        combos = list(itertools.product(*dims))
        if len(combos) > 64:
            ck = tuple(k.__index__() if isinstance(k, SI) else k for k in key)
            self[ck] = val
            return
        sc.EX.assume(bor(*[band(*[c for (_, c) in combo]) for combo in combos]))
        val = self._cast(val)
        for combo in combos:
            pos = tuple(i for (i, _) in combo)
            p = int(self._idx[pos])
            cond = band(*[c for (_, c) in combo])
            self._buf[p] = sym_ite(cond, val, self._buf[p])

    def __setitem__(self, key, val):
        if not self._wr:
            raise ValueError("assignment destination is read-only")
        if isinstance(key, tuple) and _bi.any(isinstance(k, SI) and as_const(k) is None for k in key):
            return self._sym_set(key, val)
        if isinstance(key, SI) and as_const(key) is None:
            return self._sym_set((key,), val)
        if isinstance(key, SymArray) and key.dtype == _np.bool_ and _bi.any(isinstance(v, SB) for v in key.flat_values()):
            # guarded store under a symbolic mask
            if key.shape != self.shape:
                raise ShimMissing("symbolic mask store with broadcasting")
            flags = key.flat_values()
            pos = self._idx.ravel()
            if isinstance(val, (SymArray, _np.ndarray, list, tuple)):
                raise ShimMissing("symbolic mask store of an array value")
            cv = self._cast(val)
            for p, f in zip(pos, flags):
                self._buf[p] = sym_ite(bt(f), cv, self._buf[p])
            return
        key = self._conv_key(key)
        sub = self._idx[key]
        if isinstance(sub, _np.ndarray):
            tgt = sub.ravel()
            if isinstance(val, MaskedSel):
                val = val._mat()
            if isinstance(val, SymArray):
                j = _np.broadcast_to(_np.arange(val.size).reshape(val.shape), sub.shape).ravel()
                src = val.flat_values()
                new = [self._cast(src[k]) for k in j]
            elif isinstance(val, (list, tuple, _np.ndarray)):
                sv = asarray(val)
                j = _np.broadcast_to(_np.arange(sv.size).reshape(sv.shape), sub.shape).ravel()
                src = sv.flat_values()
                new = [self._cast(src[k]) for k in j]
            else:
                cv = self._cast(val)
                new = [cv] * len(tgt)
            for p, v in zip(tgt, new):
                self._buf[p] = v
        else:
            self._buf[int(sub)] = self._cast(val)

    def _cast(self, v):
        if isinstance(v, _np.generic):
            v = v.item()
        if isinstance(v, SymArray):
            if v.size != 1:
                raise ValueError("setting an array element with a sequence")
            v = v.flat_values()[0]
        k = self.dtype.kind
        if type(v).__name__ == 'FPV':
            return v.to32() if (k == 'f' and self.dtype.itemsize == 4) else v
        if k == 'f':
            if isinstance(v, (SI, SB)):
                return SF.lift(v)
            if isinstance(v, SF):
                if self.dtype.itemsize == 4 and sc.AX.get('f32_store_round'):
                    return sc.f32_round(v)
                return v
            if isinstance(v, (int, bool)):
                v = float(v)
            if isinstance(v, float) and self.dtype.itemsize == 4:
                return float(_np.float32(v))
            return v
        if k in 'iu':
            if isinstance(v, bool):
                return int(v)
            if isinstance(v, float):
                if v != v or v in (inf, -inf):
                    return self._nan_as_int()
                return self._wrapc(int(v))
            if isinstance(v, SF):
                c = as_const(v)
                if c is not None:
                    return self._cast(c)
                return sc.sym_trunc_int(v, strict=False, nan_value=self._nan_as_int())
            if isinstance(v, SB):
                return SI.lift(v)
            if isinstance(v, int):
                return self._wrapc(v)
            return v
        if k == 'b':
            if isinstance(v, (SB, bool)):
                return v
            return mkbool(bt(v))
        return v

    def _nan_as_int(self):
        """NaN / inf cast to an integer dtype on this platform (x86-64): INT64_MIN truncated to the dtype's width"""
        bits = self.dtype.itemsize * 8
        if bits >= 64:
            return -2 ** 63 if self.dtype.kind == 'i' else 2 ** 63
        if bits == 32:
            return -2 ** 31 if self.dtype.kind == 'i' else 0
        return 0

    def _wrapc(self, v):
        bits = self.dtype.itemsize * 8
        if self.dtype.kind == 'u':
            return v % (1 << bits)
        h = 1 << (bits - 1)
        return (v + h) % (1 << bits) - h

    # ---- contents
    def flat_values(self):
        b = self._buf
        return [b[i] for i in self._idx.ravel()]

    def tolist(self):
        if self.ndim == 0:
            return self.flat_values()[0]
        if self.ndim == 1:
            return self.flat_values()
        return [self[i].tolist() for i in range(self.shape[0])]

    def __iter__(self):
        if self.ndim == 0:
            raise TypeError("iteration over a 0-d array")
        for i in range(self.shape[0]):
            yield self[i]

    def is_concrete(self):
        return not _bi.any(_is_sym(v) for v in self.flat_values())

    def to_numpy(self):
        """concrete SymArray -> real numpy array"""
        vals = self.flat_values()
        if _bi.any(_is_sym(v) for v in vals):
            vals = [as_const(v) for v in vals]
            if _bi.any(v is None for v in vals):
                raise ShimMissing("to_numpy of symbolic array")
        return _np.array(vals, dtype=self.dtype).reshape(self.shape)

    def astype(self, dt, copy=True, **kw):
        dt = _dt(dt)
        if not copy and dt == self.dtype:
            return self
        out = SymArray.from_list(self.flat_values(), self.shape, dt)
        out._buf = [out._cast(v) for v in out._buf]
        return out

    def copy(self, order='C'):
        return SymArray.from_list(self.flat_values(), self.shape, self.dtype)

    def __copy__(self):
        return self.copy()

    def __deepcopy__(self, memo):
        return self.copy()

    def view(self, *a, **k):
        return SymArray(self._buf, self._idx, self.dtype, self._wr)

    def ravel(self, order='C'):
        r = self._idx.ravel(order=order)
        if _np.shares_memory(r, self._idx):
            return SymArray(self._buf, r, self.dtype, self._wr)
        return SymArray.from_list([self._buf[i] for i in r], r.shape, self.dtype)

    def flatten(self, order='C'):
        r = self._idx.ravel(order=order)
        return SymArray.from_list([self._buf[i] for i in r], r.shape, self.dtype)

    def reshape(self, *shape, **kw):
        if len(shape) == 1 and isinstance(shape[0], (tuple, list)):
            shape = tuple(shape[0])
        shape = tuple(int(s) for s in shape)
        r = self._idx.reshape(shape)
        if _np.shares_memory(r, self._idx):
            return SymArray(self._buf, r, self.dtype, self._wr)
        return SymArray.from_list([self._buf[i] for i in r.ravel()], r.shape, self.dtype)

    def squeeze(self, axis=None):
        return SymArray(self._buf, self._idx.squeeze(axis), self.dtype, self._wr)

    def fill(self, v):
        if not self._wr:
            raise ValueError("assignment destination is read-only")
        cv = self._cast(v)
        for p in self._idx.ravel():
            self._buf[p] = cv

    def item(self, *a):
        if a:
            return self[a if len(a) > 1 else a[0]]
        if self.size != 1:
            raise ValueError("can only convert an array of size 1 to a Python scalar")
        return self.flat_values()[0]

    def __float__(self):
        return float(self.item())

    def __int__(self):
        return int(self.item())

    def __bool__(self):
        if self.size != 1:
            raise ValueError("The truth value of an array with more than one element is ambiguous.")
        return bool(self.item())

    def __index__(self):
        if self.size != 1 or self.dtype.kind not in 'iu':
            raise TypeError("only integer scalar arrays can be converted to a scalar index")
        v = self.item()
        return v.__index__()

    # ---- elementwise machinery
    def _map(self, f, dtype=None):
        return SymArray.from_list([f(v) for v in self.flat_values()], self.shape, dtype or self.dtype)

    def _zip(self, o, f, dtype=None, wrap=True):
        if isinstance(o, (list, tuple, _np.ndarray)):
            o = asarray(o)
        if isinstance(o, SymArray):
            shp = _np.broadcast_shapes(self.shape, o.shape)
            ia = _np.broadcast_to(_np.arange(self.size).reshape(self.shape), shp).ravel()
            ib = _np.broadcast_to(_np.arange(o.size).reshape(o.shape), shp).ravel()
            a = self.flat_values()
            b = o.flat_values()
            dt = dtype or _np.result_type(self.dtype, o.dtype)
            out = SymArray.from_list([f(a[i], b[j]) for i, j in zip(ia, ib)], shp, dt)
        else:
            o = _unnp(o)
            if dtype is not None:
                dt = dtype
            elif isinstance(o, (float, SF)):
                dt = self.dtype if self.dtype.kind == 'f' else _np.dtype('float64')
            elif isinstance(o, (bool, SB)) or isinstance(o, (int, SI)):
                dt = self.dtype if self.dtype.kind != 'b' else _np.dtype('int64')
            else:
                return NotImplemented
            out = SymArray.from_list([f(v, o) for v in self.flat_values()], self.shape, dt)
        if wrap:
            out._fix_after_arith()
        return out

    def _fix_after_arith(self):
        k = self.dtype.kind
        if k in 'iu' and self.dtype.itemsize < 8:
            bits = self.dtype.itemsize * 8
            m = 1 << bits
            h = 0 if k == 'u' else (1 << (bits - 1))
            for i, v in enumerate(self._buf):
                if isinstance(v, SI):
                    self._buf[i] = SI((v.t + h) % m - h)
                elif isinstance(v, int) and not isinstance(v, bool):
                    self._buf[i] = (v + h) % m - h
        elif k == 'f' and self.dtype.itemsize == 4:
            for i, v in enumerate(self._buf):
                if isinstance(v, float):
                    self._buf[i] = float(_np.float32(v))
                elif isinstance(v, (int, bool)):
                    self._buf[i] = float(v)
        elif k == 'f':
            for i, v in enumerate(self._buf):
                if isinstance(v, (int, bool)):
                    self._buf[i] = float(v)
                elif isinstance(v, (SI, SB)):
                    self._buf[i] = SF.lift(v)

    def __add__(self, o): return self._zip(o, lambda a, b: a + b)
    def __radd__(self, o): return self._zip(o, lambda a, b: b + a)
    def __sub__(self, o): return self._zip(o, lambda a, b: a - b)
    def __rsub__(self, o): return self._zip(o, lambda a, b: b - a)
    def __mul__(self, o): return self._zip(o, lambda a, b: a * b)
    def __rmul__(self, o): return self._zip(o, lambda a, b: b * a)

    def _divdt(self, o):
        od = o.dtype if isinstance(o, SymArray) else None
        if self.dtype.kind == 'f' and (od is None or od.kind != 'f' or od.itemsize <= self.dtype.itemsize):
            if od is not None and od.kind == 'f':
                return _np.result_type(self.dtype, od)
            return self.dtype
        if od is not None and od.kind == 'f':
            return _np.result_type(self.dtype, od)
        return _np.dtype('float64')

    def __truediv__(self, o):
        if isinstance(o, (list, tuple, _np.ndarray)):
            o = asarray(o)
        return self._zip(o, _sdiv, self._divdt(o))

    def __rtruediv__(self, o):
        return self._zip(o, lambda a, b: _sdiv(b, a), self._divdt(o))

    def __floordiv__(self, o): return self._zip(o, lambda a, b: a // b)
    def __mod__(self, o): return self._zip(o, lambda a, b: a % b)

    def __pow__(self, p):
        if self.dtype.kind in 'iu' and isinstance(p, float):
            return self.astype('float64') ** p
        r = self._map(lambda a: a ** p)
        r._fix_after_arith()
        return r

    def __neg__(self): return self._map(lambda a: -a)
    def __pos__(self): return self
    def __abs__(self): return self._map(_bi.abs)
    def __lt__(self, o): return self._zip(o, lambda a, b: a < b, _np.bool_, False)
    def __le__(self, o): return self._zip(o, lambda a, b: a <= b, _np.bool_, False)
    def __gt__(self, o): return self._zip(o, lambda a, b: a > b, _np.bool_, False)
    def __ge__(self, o): return self._zip(o, lambda a, b: a >= b, _np.bool_, False)

    def __eq__(self, o):
        if o is None:
            return self._map(lambda a: False, _np.bool_)
        r = self._zip(o, lambda a, b: a == b, _np.bool_, False)
        return r

    def __ne__(self, o):
        if o is None:
            return self._map(lambda a: True, _np.bool_)
        return self._zip(o, lambda a, b: a != b, _np.bool_, False)

    def __and__(self, o): return self._zip(o, _sand, None, False)
    __rand__ = __and__
    def __or__(self, o): return self._zip(o, _sor, None, False)
    __ror__ = __or__
    def __xor__(self, o): return self._zip(o, lambda a, b: a ^ b, None, False)
    def __invert__(self): return self._map(_snot)
    __hash__ = None

    def __iadd__(self, o):
        self[...] = self + o
        return self

    def __isub__(self, o):
        self[...] = self - o
        return self

    def __imul__(self, o):
        self[...] = self * o
        return self

    def __itruediv__(self, o):
        self[...] = self / o
        return self

    # ---- reductions
    def _reduce(self, f, axis=None, dtype=None, keepdims=False):
        if axis is None:
            r = f(self.flat_values())
            if dtype is None and self.dtype.kind in 'iu' and self.dtype.itemsize < 8 and sc.JIT_DEPTH == 0 and isinstance(r, SI) \
                    and as_const(r) is None:
                # min / max / ptp of a narrow integer array outside compiled code is a NumPy scalar of that dtype: later scalar arithmetic wraps
                return sc.SIT.typed(r.t, self.dtype)
            return r
        axis = axis if axis >= 0 else axis + self.ndim
        moved = _np.moveaxis(self._idx, axis, -1)
        outshape = moved.shape[:-1]
        res = []
        for row in moved.reshape(-1, moved.shape[-1]) if moved.size else []:
            res.append(f([self._buf[i] for i in row]))
        if not moved.size:
            n = int(_np.prod(outshape))
            res = [f([]) for _ in range(n)]
        out = SymArray.from_list(res, outshape, dtype or self.dtype)
        return out

    def sum(self, axis=None, dtype=None, **kw):
        return self._reduce(s_sum, axis, _sumdt(self.dtype))

    def mean(self, axis=None, **kw):
        return self._reduce(s_mean, axis, _fdt(self.dtype))

    def max(self, axis=None, **kw):
        return self._reduce(s_max, axis)

    def min(self, axis=None, **kw):
        return self._reduce(s_min, axis)

    def var(self, axis=None, ddof=0, **kw):
        return self._reduce(lambda v: s_var(v, ddof), axis, _fdt(self.dtype))

    def std(self, axis=None, ddof=0, **kw):
        return self._reduce(lambda v: sqrt(s_var(v, ddof)), axis, _fdt(self.dtype))

    def ptp(self, axis=None):
        return self._reduce(lambda v: s_max(v) - s_min(v), axis)

    def prod(self, axis=None):
        def p(v):
            r = 1
            for x in v:
                r = r * x
            return r
        return self._reduce(p, axis)

    def any(self, axis=None, **kw):
        return self._reduce(s_any, axis, _np.bool_)

    def all(self, axis=None, **kw):
        return self._reduce(s_all, axis, _np.bool_)

    def argmin(self, axis=None):
        if axis is not None:
            raise ShimMissing("argmin axis")
        return s_argbest(self.flat_values(), lambda a, b: a < b)

    def argmax(self, axis=None):
        if axis is not None:
            raise ShimMissing("argmax axis")
        return s_argbest(self.flat_values(), lambda a, b: a > b)

    def nonzero(self):
        return where(self)

    def argsort(self, axis=-1, kind=None):
        return argsort(self, axis=axis)

    def sort(self, axis=-1):
        self[...] = sort(self, axis=axis)

    def round(self, decimals=0):
        return self._map(lambda v: _bi.round(v, decimals) if not _is_sym(v) else _raise(ShimMissing("round of symbolic")))

    def clip(self, lo=None, hi=None):
        def c(v):
            if lo is not None:
                v = sym_ite(bt(v < lo), lo, v) if _is_sym(v) or _is_sym(lo) else _bi.max(v, lo)
            if hi is not None:
                v = sym_ite(bt(v > hi), hi, v) if _is_sym(v) or _is_sym(hi) else _bi.min(v, hi)
            return v
        return self._map(c)

    def compute(self):
        return self

    def get(self):
        return self

    def __repr__(self):
        return "SymArray%s%s" % (self.shape, self.flat_values() if self.size <= 16 else '[...]')

    def __array__(self, dtype=None, copy=None):
        return self.to_numpy() if dtype is None else self.to_numpy().astype(dtype)


ndarray = SymArray


def _raise(e):
    raise e


def _sdiv(a, b):
    """array-level (NumPy semantics) division: never raises, x/0 = +-inf or nan"""
    if _is_sym(a) or _is_sym(b):
        return SF.lift(a)._div_ieee(b)
    a = float(a)
    b = float(b)
    if b == 0:
        if a != a or a == 0:
            return nan
        return inf if (a > 0) == (math.copysign(1, b) > 0) else -inf
    return a / b


def _sand(a, b):
    if isinstance(a, (SB, bool, _np.bool_)) and isinstance(b, (SB, bool, _np.bool_)):
        return mkbool(band(bt(a), bt(b)))
    return a & b


def _sor(a, b):
    if isinstance(a, (SB, bool, _np.bool_)) and isinstance(b, (SB, bool, _np.bool_)):
        return mkbool(bor(bt(a), bt(b)))
    return a | b


def _snot(a):
    if isinstance(a, (SB, bool, _np.bool_)):
        return mkbool(bnot(bt(a)))
    return ~a


def _fdt(dt):
    return dt if dt.kind == 'f' else _np.dtype('float64')


def _sumdt(dt):
    if dt.kind == 'b':
        return _np.dtype('int64')
    if dt.kind == 'i':
        return _np.dtype('int64')
    if dt.kind == 'u':
        return _np.dtype('uint64')
    return dt


# ----------------------------------------------------------------- scalar-list reducers (merging, no forks)
def _num(v):
    if isinstance(v, SB):
        return SI.lift(v)
    if isinstance(v, (bool, _np.bool_)):
        return int(v)
    return _unnp(v)


def s_sum(vals):
    r = 0
    for v in vals:
        r = r + _num(v)
    return r


def s_mean(vals):
    if not vals:
        return nan
    return _sdiv(s_sum(vals), len(vals))


def s_var(vals, ddof=0):
    n = len(vals)
    if n - ddof <= 0:
        return nan
    mu = s_mean(vals)
    return _sdiv(s_sum([(_num(v) - mu) * (_num(v) - mu) for v in vals]), n - ddof)


def s_isnan(v):
    if isinstance(v, SF):
        return v.nan
    if isinstance(v, float):
        return v != v
    return False


def _best(vals, better, nanprop=True):
    """min/max by ite-folding; NaN propagates (numpy semantics)"""
    if not vals:
        raise ValueError("zero-size array to reduction operation which has no identity")
    vals = [_num(v) for v in vals]
    if not _bi.any(_is_sym(v) for v in vals):
        m = vals[0]
        for v in vals[1:]:
            if isinstance(v, float) and v != v:
                return nan
            if isinstance(m, float) and m != m:
                return nan
            if better(v, m):
                m = v
        return m
    m = vals[0]
    for v in vals[1:]:
        c = better(v, m)
        m = sym_ite(bt(c), v, m)
    anynan = bor(*[s_isnan(v) for v in vals])
    if anynan is False:
        return m
    m = SF.lift(m)
    return SF(sc.bsimp(bor(anynan, m.nan)), m.v, band(bnot(anynan), m.pinf), band(bnot(anynan), m.ninf))


def s_max(vals):
    return _best(vals, lambda a, b: a > b)


def s_min(vals):
    return _best(vals, lambda a, b: a < b)


def s_any(vals):
    return mkbool(bor(*[bt(v) for v in vals]))


def s_all(vals):
    return mkbool(band(*[bt(v) for v in vals]))


def s_argbest(vals, better):
    """index of first best element (NaN wins first, as numpy) -> int or SI"""
    vals = [_num(v) for v in vals]
    bi = 0
    bv = vals[0]
    for i, v in enumerate(vals[1:], 1):
        c = bor(bt(better(v, bv)), band(s_isnan(v), bnot(s_isnan(bv))))
        c = sc.bsimp(c)
        bi = sym_ite(c, i, bi)
        bv = sym_ite(c, v, bv)
    return bi


def _nanparts(vals):
    vals = [_num(v) for v in vals]
    flags = [s_isnan(v) for v in vals]
    return vals, flags


def s_nansum(vals):
    vals, flags = _nanparts(vals)
    r = 0
    for v, f in zip(vals, flags):
        if f is True:
            continue
        if f is False:
            r = r + v
        else:
            r = r + sym_ite(f, 0.0, v)
    return r


def s_count_nonnan(vals):
    vals, flags = _nanparts(vals)
    c = 0
    for f in flags:
        if f is True:
            continue
        if f is False:
            c = c + 1
        else:
            c = c + SI(z3.If(f, 0, 1))
    return c


def div_by_count(s, c, n):
    """s / c for a symbolic count c in 0..n, as a linear ite chain; c == 0 -> NaN"""
    if not isinstance(c, SI):
        return _sdiv(s, c) if c != 0 else nan
    res = nan
    for k in range(n, 0, -1):
        res = sym_ite(c.t == k, _sdiv(s, k), res)
    return res


def s_nanmean(vals):
    return div_by_count(s_nansum(vals), s_count_nonnan(vals), len(vals))


def _nanbest(vals, better):
    vals, flags = _nanparts(vals)
    m = None
    mn = True  # "still all NaN"
    for v, f in zip(vals, flags):
        if f is True:
            continue
        if m is None:
            m = v
            mn = f
            continue
        c = band(bnot(f), bor(mn, bt(better(v, m))))
        m = sym_ite(sc.bsimp(c), v, m)
        mn = band(mn, f)
    if m is None:
        return nan
    if mn is False:
        return m
    return sym_ite(sc.bsimp(mn), nan, m)


def s_nanmax(vals):
    return _nanbest(vals, lambda a, b: a > b)


def s_nanmin(vals):
    return _nanbest(vals, lambda a, b: a < b)


def s_nanvar(vals, ddof=0):
    vals2, flags = _nanparts(vals)
    n = len(vals2)
    cnt = s_count_nonnan(vals2)
    mu = div_by_count(s_nansum(vals2), cnt, n)
    sq = []
    for v, f in zip(vals2, flags):
        d = (v - mu)
        sq.append(sym_ite(f, 0.0, d * d) if f is not False else d * d)
    tot = s_sum(sq) if sq else 0.0
    if ddof:
        raise ShimMissing("nanvar ddof")
    return div_by_count(tot, cnt, n)


# ----------------------------------------------------------------- lazily compressed selection  a[mask]
class MaskedSel(SymArray):
    """a[mask] with a symbolic mask: values + per-element presence flags (B); order preserved.
    Reductions / len / shape stay lazy (ite over the flags); any other ndarray operation reaches
    _buf/_idx, which materialises the selection by forking on the flags."""
    __array_priority__ = 2000

    def __init__(self, vals, present, dtype):
        self.vals = vals
        self.present = present
        self.dtype = _np.dtype(dtype)
        self._wr = True
        self._m = None

    def _mat(self):
        if self._m is None:
            self._m = self.materialize()
        return self._m

    @property
    def _buf(self):
        return self._mat()._buf

    @property
    def _idx(self):
        return self._mat()._idx

    @staticmethod
    def from_mask(arr, mask):
        if mask.shape != arr.shape:
            raise ShimMissing("mask shape mismatch")
        return MaskedSel(arr.flat_values(), [bt(f) for f in mask.flat_values()], arr.dtype)

    def _count(self):
        c = 0
        for p in self.present:
            if p is True:
                c = c + 1
            elif p is False:
                continue
            else:
                c = c + SI(z3.If(p, 1, 0))
        return c

    def __len__(self):
        raise ShimMissing("len(MaskedSel) must go through the injected len")

    def sym_len(self):
        if self._m is not None:
            return self._m.shape[0]
        return self._count()

    @property
    def size(self):
        return self.sym_len()

    @property
    def shape(self):
        return (self.sym_len(),)

    @property
    def ndim(self):
        return 1

    def _sel(self):
        return [(v, p) for v, p in zip(self.vals, self.present) if p is not False]

    def materialize(self):
        """fork on every presence flag -> plain SymArray"""
        out = [v for v, p in zip(self.vals, self.present) if (p is True or (p is not False and sc.EX.decide(p)))]
        return SymArray.from_list(out, (len(out),), self.dtype)

    def _map(self, f, dtype=None):
        return MaskedSel([f(v) for v in self.vals], list(self.present), dtype or self.dtype)

    def __pow__(self, p): return self._map(lambda a: a ** p)
    def __mul__(self, o): return self._map(lambda a: a * o) if not isinstance(o, (SymArray, MaskedSel)) else self._mat() * o
    __rmul__ = __mul__
    def __add__(self, o): return self._map(lambda a: a + o) if not isinstance(o, (SymArray, MaskedSel)) else self._mat() + o
    __radd__ = __add__
    def __sub__(self, o): return self._map(lambda a: a - o) if not isinstance(o, (SymArray, MaskedSel)) else self._mat() - o
    def __truediv__(self, o): return self._map(lambda a: _sdiv(a, o), _fdt(self.dtype)) if not isinstance(o, (SymArray, MaskedSel)) else self._mat() / o
    def __neg__(self): return self._map(lambda a: -a)
    def astype(self, dt, **kw):
        d = _dt(dt)
        tmp = SymArray.from_list([], (0,), d)
        return MaskedSel([tmp._cast(v) for v in self.vals], list(self.present), d)

    def __getitem__(self, k):
        return self._mat()[k]

    def __setitem__(self, k, v):
        self._mat()[k] = v

    def __iter__(self):
        return iter(self._mat())

    def copy(self, order='C'):
        return MaskedSel(list(self.vals), list(self.present), self.dtype)

    # reductions: absent elements are skipped
    def sum(self, axis=None, **kw):
        r = 0
        for v, p in self._sel():
            v = _num(v)
            r = r + (v if p is True else sym_ite(p, v, 0 if isinstance(v, (int, SI)) else 0.0))
        return r

    def count(self):
        return self._count()

    def mean(self, axis=None, **kw):
        return div_by_count(self.sum(), self._count(), len(self.vals))

    def _best(self, better):
        m = None
        have = False
        anynan = False
        for v, p in self._sel():
            v = _num(v)
            anynan = bor(anynan, band(p, s_isnan(v)))
            if m is None:
                m, have = v, p
                continue
            c = band(p, bor(bnot(have), bt(better(v, m))))
            m = sym_ite(sc.bsimp(c), v, m)
            have = bor(have, p)
        if m is None:
            raise ValueError("zero-size array to reduction operation which has no identity")
        # caller guarantees non-empty (len > 0 was decided); NaN propagates
        if anynan is not False:
            m = sym_ite(sc.bsimp(anynan), nan, m)
        return m

    def max(self, axis=None, **kw):
        return self._best(lambda a, b: a > b)

    def min(self, axis=None, **kw):
        return self._best(lambda a, b: a < b)

    def var(self, axis=None, ddof=0, **kw):
        n = len(self.vals)
        cnt = self._count()
        mu = self.mean()
        tot = 0.0
        for v, p in self._sel():
            d = _num(v) - mu
            tot = tot + (d * d if p is True else sym_ite(p, d * d, 0.0))
        if ddof:
            raise ShimMissing("var ddof on MaskedSel")
        return div_by_count(tot, cnt, n)

    def std(self, axis=None, ddof=0, **kw):
        return sqrt(self.var(ddof=ddof))

    def ptp(self):
        return self.max() - self.min()

    def any(self):
        return mkbool(bor(*[band(p, bt(v)) for v, p in self._sel()]))

    def all(self):
        return mkbool(band(*[bor(bnot(p), bt(v)) for v, p in self._sel()]))

    def ravel(self, order='C'):
        return self

    def flatten(self, order='C'):
        return self.copy()

    def flat_values(self):
        return self._mat().flat_values()

    def __repr__(self):
        return "MaskedSel(%d candidates)" % len(self.vals)


def sym_len(x):
    """len() replacement injected into loaded modules"""
    if isinstance(x, MaskedSel):
        return x.sym_len()
    return _bi.len(x)


# ----------------------------------------------------------------- constructors
def _infer_dtype(vals):
    k = 'b'
    for v in vals:
        v = _unnp(v)
        if isinstance(v, (float, SF)):
            return _np.dtype('float64')
        if isinstance(v, (SB, bool)):
            continue
        if isinstance(v, (int, SI)):
            k = 'i'
        elif isinstance(v, str):
            return _np.dtype('U16')
        elif v is None:
            return _np.dtype('O')
        else:
            return _np.dtype('O')
    return _np.dtype('int64') if k == 'i' else _np.dtype('bool')


def asarray(x, dtype=None, **kw):
    if isinstance(x, MaskedSel):
        x = x._mat()
    if isinstance(x, SymArray):
        if dtype is None or _dt(dtype) == x.dtype:
            return x
        return x.astype(dtype)
    if hasattr(x, '_sx_array_'):
        return asarray(x._sx_array_(), dtype)
    if hasattr(x, 'compute') and hasattr(x, 'numblocks'):
        return asarray(x.compute(), dtype)     # np.asarray(dask array) computes it
    if isinstance(x, _np.ndarray):
        a = SymArray.from_list(x.ravel().tolist() if x.dtype != object else list(x.ravel()), x.shape, x.dtype if x.dtype != object else _infer_dtype(list(x.ravel())))
        return a if dtype is None else a.astype(dtype)
    if isinstance(x, (list, tuple, range)) or isinstance(x, types.GeneratorType):
        x = list(x)
        if len(x) and isinstance(x[0], (list, tuple, SymArray, _np.ndarray, range)):
            rows = [asarray(r) for r in x]
            vals = [v for r in rows for v in r.flat_values()]
            dt = _dt(dtype) if dtype is not None else _np.result_type(*[r.dtype for r in rows])
            return SymArray.from_list(vals, (len(rows),) + rows[0].shape, dt, cast=True)
        x = [_unnp(v) for v in x]
        dt = _dt(dtype) if dtype is not None else _infer_dtype(x)
        return SymArray.from_list(x, (len(x),), dt, cast=dt.kind in 'fiub')
    x = _unnp(x)
    dt = _dt(dtype) if dtype is not None else _infer_dtype([x])
    return SymArray.from_list([x], (), dt, cast=True)


def array(x, dtype=None, copy=True, **kw):
    if isinstance(x, SymArray):
        return x.astype(dtype or x.dtype)
    return asarray(x, dtype)


asanyarray = asarray
ascontiguousarray = asarray


def _shape(s):
    if isinstance(s, (int, _np.integer, SI)):
        return (int(s),)
    return tuple(int(v) for v in s)


def zeros(shape, dtype=_np.float64, **kw):
    d = _dt(dtype)
    z = False if d.kind == 'b' else (0.0 if d.kind == 'f' else 0)
    shape = _shape(shape)
    return SymArray.from_list([z] * int(_np.prod(shape)), shape, d)


def ones(shape, dtype=_np.float64, **kw):
    a = zeros(shape, dtype)
    a.fill(1)
    return a


def empty(shape, dtype=_np.float64, **kw):
    return zeros(shape, dtype)


def full(shape, v, dtype=None, **kw):
    if dtype is None:
        dtype = _infer_dtype([v])
    a = zeros(shape, dtype)
    a.fill(v)
    return a


def _like_layout(a, out, order='K'):
    """NumPy's *_like / copy default order 'K': a Fortran-contiguous prototype (and only that) yields a Fortran-ordered result"""
    if order in ('K', 'A') and a.ndim == 2 and a.shape[0] > 1 and a.shape[1] > 1:
        idx = a._idx
        sy, sx = int(idx[1, 0]) - int(idx[0, 0]), int(idx[0, 1]) - int(idx[0, 0])
        if sy == 1 and sx == a.shape[0]:
            h, w = a.shape
            fidx = _np.arange(h * w).reshape(w, h).T
            buf = [None] * (h * w)
            flat = out.flat_values()
            for y in range(h):
                for x in range(w):
                    buf[int(fidx[y, x])] = flat[y * w + x]
            r = SymArray(buf, fidx, out.dtype)
            r._sx_layout = 'F'
            return r
    return out


def asfortranarray(a, dtype=None):
    a = asarray(a, dtype) if dtype is not None else asarray(a)
    if a.ndim != 2 or a.shape[0] < 2 or a.shape[1] < 2:
        return a
    h, w = a.shape
    fidx = _np.arange(h * w).reshape(w, h).T
    if _np.array_equal(a._idx, fidx + (int(a._idx[0, 0]) - 0)) and len(a._buf) == h * w:
        return a
    buf = [None] * (h * w)
    for y in range(h):
        for x in range(w):
            buf[int(fidx[y, x])] = a[y, x]
    r = SymArray(buf, fidx, a.dtype)
    r._sx_layout = 'F'
    return r


def ascontiguousarray(a, dtype=None):
    a = asarray(a, dtype) if dtype is not None else asarray(a)
    if a.ndim >= 1 and _np.array_equal(a._idx, _np.arange(a.size).reshape(a.shape) + int(a._idx.ravel()[0]) if a.size else a._idx):
        return a
    return SymArray.from_list(list(a.flat_values()), a.shape, a.dtype)


def zeros_like(a, dtype=None, order='K', **kw):
    a = asarray(a)
    return _like_layout(a, zeros(a.shape, dtype or a.dtype), order)


def ones_like(a, dtype=None, order='K', **kw):
    a = asarray(a)
    return _like_layout(a, ones(a.shape, dtype or a.dtype), order)


def empty_like(a, dtype=None, order='K', **kw):
    a = asarray(a)
    return _like_layout(a, zeros(a.shape, dtype or a.dtype), order)


def full_like(a, v, dtype=None, order='K', **kw):
    a = asarray(a)
    return _like_layout(a, full(a.shape, v, dtype or a.dtype), order)


def _int_len(q):
    """number of arange elements: ceil(q) for q > 0, concretised"""
    q = SF.lift(q)
    n = z3.Int(sc.EX.fresh_name('alen'))
    nr = z3.ToReal(n)
    sc.EX.add_axiom(z3.And(n >= 0, z3.If(q.v <= 0, n == 0, z3.And(nr - 1 < q.v, q.v <= nr))), 'arange length = ceil((stop-start)/step)')
    return sc.concretize_int(SI(n))


def arange(*a, dtype=None, **k):
    if not _bi.any(_is_sym(v) for v in a):
        return asarray(_np.arange(*[_unnp(v) for v in a], dtype=dtype, **k))
    if len(a) == 1:
        start, stop, step = 0, a[0], 1
    elif len(a) == 2:
        start, stop, step = a[0], a[1], 1
    else:
        start, stop, step = a
    q = (SF.lift(stop) - start) / step
    n = _int_len(q)
    if _bi.all(isinstance(v, (int, SI)) for v in (start, stop, step)):
        return SymArray.from_list([start + i * step for i in range(n)], (n,), _np.int64)
    return SymArray.from_list([SF.lift(start) + i * step for i in range(n)], (n,), _np.float64)


def linspace(start, stop, num=50, endpoint=True, dtype=None, **k):
    if not _bi.any(_is_sym(v) for v in (start, stop)):
        return asarray(_np.linspace(_unnp(start), _unnp(stop), int(num), endpoint=endpoint, dtype=dtype))
    num = int(num)
    div = (num - 1) if endpoint else num
    if div <= 0:
        return SymArray.from_list([SF.lift(start)] * num, (num,), _np.float64)
    step = (SF.lift(stop) - start) / div
    out = [SF.lift(start) + i * step for i in range(num)]
    if endpoint and num > 1:
        out[-1] = SF.lift(stop)
    return SymArray.from_list(out, (num,), _dt(dtype))


def meshgrid(*xi, indexing='xy', **kw):
    arrs = [asarray(x) for x in xi]
    if len(arrs) != 2:
        raise ShimMissing("meshgrid of != 2 arrays")
    x, y = arrs
    if indexing == 'xy':
        X = SymArray.from_list([v for _ in range(y.size) for v in x.flat_values()], (y.size, x.size), x.dtype)
        Y = SymArray.from_list([v for v in y.flat_values() for _ in range(x.size)], (y.size, x.size), y.dtype)
    else:
        X = SymArray.from_list([v for v in x.flat_values() for _ in range(y.size)], (x.size, y.size), x.dtype)
        Y = SymArray.from_list([v for _ in range(x.size) for v in y.flat_values()], (x.size, y.size), y.dtype)
    return [X, Y]


# ----------------------------------------------------------------- elementwise functions
def _unwrap(x):
    if hasattr(x, '_sx_array_'):
        return x._sx_array_()
    return x


def _is_dask(x):
    return hasattr(x, 'numblocks') and hasattr(x, '_cap')


def _ew(fsym, fconc, fdtype=True):
    def g(x, *a, **k):
        x = _unwrap(x)
        if _is_dask(x):
            return x._lazy(lambda w: g(w))       # numpy ufuncs on dask arrays stay lazy (__array_ufunc__)
        if isinstance(x, MaskedSel):
            return x._map(g)
        if isinstance(x, (SymArray, list, tuple, _np.ndarray)):
            x = asarray(x)
            return x._map(g, _fdt(x.dtype) if fdtype else _np.dtype('bool'))
        x = _unnp(x)
        if _is_sym(x):
            return fsym(x)
        return fconc(x)
    return g


def _isnan_s(x):
    if isinstance(x, SF):
        return mkbool(x.nan)
    return False


def _isfinite_s(x):
    if isinstance(x, SF):
        return mkbool(x.finite())
    return True


def _isinf_s(x):
    if isinstance(x, SF):
        return mkbool(x.isinf())
    return False


isnan = _ew(_isnan_s, lambda x: isinstance(x, float) and x != x, False)
isfinite = _ew(_isfinite_s, lambda x: math.isfinite(x), False)
isinf = _ew(_isinf_s, lambda x: isinstance(x, float) and math.isinf(x), False)


def _csqrt(x):
    try:
        return math.sqrt(x)
    except ValueError:
        return nan


sqrt = _ew(sc.sym_sqrt, _csqrt)


def _abs_s(x):
    return _bi.abs(x)


def _absf(x, *a, **k):
    if isinstance(x, (SymArray, list, tuple, _np.ndarray)):
        x = asarray(x)
        return x._map(_bi.abs)
    if isinstance(x, MaskedSel):
        return x._map(_bi.abs)
    return _bi.abs(_unnp(x))


globals()['abs'] = _absf
absolute = _absf
fabs = _absf

from . import symmath as _sm  # noqa: E402  (transcendentals live there)

arctan = _ew(_sm.atan, lambda x: math.atan(x))
sin = _ew(_sm.sin, lambda x: math.sin(x) if math.isfinite(x) else nan)
cos = _ew(_sm.cos, lambda x: math.cos(x) if math.isfinite(x) else nan)
tan = _ew(_sm.tan, lambda x: math.tan(x) if math.isfinite(x) else nan)
arcsin = _ew(_sm.asin, lambda x: math.asin(x) if -1 <= x <= 1 else nan)
exp = _ew(_sm.exp, lambda x: _sm._cexp(x))
log = _ew(_sm.log, lambda x: _sm._clog(x))
radians = _ew(lambda x: x * (math.pi / 180.0), lambda x: math.radians(x))
degrees = _ew(lambda x: x * (180.0 / math.pi), lambda x: math.degrees(x))
deg2rad = radians
rad2deg = degrees
floor = _ew(sc.sym_floor, lambda x: float(math.floor(x)) if math.isfinite(x) else x)
ceil = _ew(sc.sym_ceil, lambda x: float(math.ceil(x)) if math.isfinite(x) else x)
square = _ew(lambda x: x * x, lambda x: x * x)


def arctan2(y, x):
    if isinstance(y, (SymArray, _np.ndarray)) or isinstance(x, (SymArray, _np.ndarray)):
        y = asarray(y)
        return y._zip(x, _sm.atan2, _fdt(y.dtype), False)
    return _sm.atan2(_unnp(y), _unnp(x))


def mod(a, b):
    return a % b


def logical_or(a, b):
    a, b = _unwrap(a), _unwrap(b)
    return asarray(a) | b if isinstance(a, (SymArray, _np.ndarray)) or isinstance(b, SymArray) else mkbool(bor(bt(a), bt(b)))


def logical_and(a, b):
    a, b = _unwrap(a), _unwrap(b)
    return asarray(a) & b if isinstance(a, (SymArray, _np.ndarray)) or isinstance(b, SymArray) else mkbool(band(bt(a), bt(b)))


def logical_not(a):
    a = _unwrap(a)
    return ~asarray(a) if isinstance(a, (SymArray, _np.ndarray)) else mkbool(bnot(bt(a)))


def maximum(a, b):
    if isinstance(a, (SymArray, _np.ndarray)) or isinstance(b, (SymArray, _np.ndarray)):
        a = asarray(a)
        return a._zip(b, lambda p, q: s_max([p, q]), None, False)
    return s_max([a, b])


def minimum(a, b):
    if isinstance(a, (SymArray, _np.ndarray)) or isinstance(b, (SymArray, _np.ndarray)):
        a = asarray(a)
        return a._zip(b, lambda p, q: s_min([p, q]), None, False)
    return s_min([a, b])


def where(c, *args):
    c = _unwrap(c)
    args = tuple(_unwrap(a) for a in args)
    if isinstance(c, (bool, SB)):
        c = asarray([c], _np.bool_).reshape(())
    c = asarray(c)
    if not args:
        flags = [bool(v) for v in c.flat_values()]
        nz = _np.array(flags, dtype=bool).reshape(c.shape).nonzero()
        return tuple(asarray(ix.astype(_np.int64)) for ix in nz)
    a, b = args
    shp = c.shape
    A = asarray(a) if isinstance(a, (SymArray, _np.ndarray, list, tuple)) else None
    B = asarray(b) if isinstance(b, (SymArray, _np.ndarray, list, tuple)) else None
    for X in (A, B):
        if X is not None:
            shp = _np.broadcast_shapes(shp, X.shape)
    n = int(_np.prod(shp))
    ci = _np.broadcast_to(_np.arange(c.size).reshape(c.shape), shp).ravel()
    cv = c.flat_values()

    def src(X, x):
        if X is None:
            return lambda i: _unnp(x)
        xv = X.flat_values()
        xi = _np.broadcast_to(_np.arange(X.size).reshape(X.shape), shp).ravel()
        return lambda i: xv[xi[i]]
    ga = src(A, a)
    gb = src(B, b)
    out = []
    for i in range(n):
        f = cv[ci[i]]
        if isinstance(f, SB):
            out.append(sym_ite(f.t, ga(i), gb(i)))
        else:
            out.append(ga(i) if f else gb(i))
    dts = []
    for X, x in ((A, a), (B, b)):
        if X is not None:
            dts.append(X.dtype)
        else:
            dts.append(_infer_dtype([x]))
    if A is None and B is not None:
        dt = B.dtype if dts[0].kind in 'ib' or (dts[0].kind == 'f' and B.dtype.kind == 'f') else _np.result_type(*dts)
    elif B is None and A is not None:
        dt = A.dtype if dts[1].kind in 'ib' or (dts[1].kind == 'f' and A.dtype.kind == 'f') else _np.result_type(*dts)
    else:
        dt = _np.result_type(*dts)
    return SymArray.from_list(out, shp, dt, cast=True)


def argwhere(c):
    c = asarray(c)
    flags = _np.array([bool(v) for v in c.flat_values()], dtype=bool).reshape(c.shape)
    return asarray(_np.argwhere(flags))


def nonzero(c):
    return where(c)


def count_nonzero(c):
    return s_sum([SI.lift(mkbool(bt(v))) if _is_sym(v) else int(bool(v)) for v in asarray(c).flat_values()])


# ----------------------------------------------------------------- reductions (module level)
def _red(name, f, fdt=None):
    def g(x, axis=None, **kw):
        if isinstance(x, MaskedSel):
            if hasattr(x, name):
                return getattr(x, name)()
            x = x._mat()
        if not isinstance(x, SymArray):
            if isinstance(x, (list, tuple)) and axis is None and not (x and isinstance(x[0], (list, tuple, SymArray, _np.ndarray))):
                return f([_unnp(v) for v in x])
            x = asarray(x)
        return x._reduce(f, axis, fdt(x.dtype) if fdt else None)
    g.__name__ = name
    return g


globals()['sum'] = _red('sum', s_sum, _sumdt)
mean = _red('mean', s_mean, _fdt)
globals()['max'] = _red('max', s_max)
globals()['min'] = _red('min', s_min)
amax = globals()['max']
amin = globals()['min']
var = _red('var', s_var, _fdt)
std = _red('std', lambda v: sqrt(s_var(v)), _fdt)
ptp = _red('ptp', lambda v: s_max(v) - s_min(v))
globals()['any'] = _red('any', s_any, lambda d: _np.dtype('bool'))
globals()['all'] = _red('all', s_all, lambda d: _np.dtype('bool'))
nansum = _red('nansum', s_nansum)
nanmean = _red('nanmean', s_nanmean, _fdt)
nanmax = _red('nanmax', s_nanmax)
nanmin = _red('nanmin', s_nanmin)
nanvar = _red('nanvar', s_nanvar, _fdt)
nanstd = _red('nanstd', lambda v: sqrt(s_nanvar(v)), _fdt)


def prod(x, axis=None):
    if isinstance(x, (tuple, list)):
        r = 1
        for v in x:
            r = r * v
        return r
    return asarray(x).prod(axis)


def argmin(x, axis=None):
    return asarray(x).argmin(axis)


def argmax(x, axis=None):
    return asarray(x).argmax(axis)


# -- order statistics
def _lt_nanlast(a, b):
    """sort order: NaN last"""
    na, nb = s_isnan(a), s_isnan(b)
    return band(bnot(na), bor(nb, bt(_num(a) < _num(b))))


def _forking_order(vals):
    """stable insertion sort with forking comparisons -> permutation"""
    idx = list(range(len(vals)))
    for i in range(1, len(idx)):
        j = i
        while j > 0 and bool(mkbool(_lt_nanlast(vals[idx[j]], vals[idx[j - 1]]))):
            idx[j], idx[j - 1] = idx[j - 1], idx[j]
            j -= 1
    return idx


def argsort(a, axis=-1, kind=None, **kw):
    a = asarray(a)
    if a.ndim != 1:
        if a.is_concrete():
            return asarray(_np.argsort(a.to_numpy(), axis=axis, kind=kind or 'stable'))
        raise ShimMissing("argsort of symbolic nd array")
    vals = a.flat_values()
    if not _bi.any(_is_sym(v) for v in vals):
        return asarray(_np.argsort(a.to_numpy(), kind='stable'))
    return asarray(_forking_order(vals), _np.int64)


def sort(a, axis=-1, **kw):
    a = asarray(a)
    if a.is_concrete():
        return asarray(_np.sort(a.to_numpy(), axis=axis))
    if a.ndim != 1:
        from . import symnp_extra
        return symnp_extra.sort_axis(a, axis)
    vals = a.flat_values()
    return SymArray.from_list([vals[i] for i in _forking_order(vals)], a.shape, a.dtype)


def unique(a, return_counts=False, return_inverse=False, return_index=False, **kw):
    if _is_dask(a):
        from . import symda
        return symda.unique(a, return_counts=return_counts)     # __array_function__ dispatch
    if return_inverse or return_index:
        raise ShimMissing("unique(return_inverse/index)")
    if isinstance(a, MaskedSel):
        a = a._mat()
    a = asarray(a).ravel()
    if a.is_concrete():
        r = _np.unique(a.to_numpy(), return_counts=return_counts)
        if return_counts:
            return asarray(r[0]), asarray(r[1])
        return asarray(r)
    vals = sort(a).flat_values()
    out = []
    counts = []
    for v in vals:
        if out and bool(mkbool(SF.lift(out[-1]).same(v) if isinstance(v, (SF, float)) or isinstance(out[-1], (SF, float)) else bt(out[-1] == v))):
            counts[-1] += 1
        else:
            out.append(v)
            counts.append(1)
    u = SymArray.from_list(out, (len(out),), a.dtype)
    if return_counts:
        return u, asarray(counts, _np.int64)
    return u


def lexsort(keys, axis=-1):
    ks = [asarray(k) for k in keys]
    if _bi.all(k.is_concrete() for k in ks):
        return asarray(_np.lexsort([k.to_numpy() for k in ks]))
    n = ks[0].size
    cols = [k.flat_values() for k in ks]

    def less(i, j):
        # last key is primary
        res = False
        eq = True
        for col in reversed(cols):
            a, b = col[i], col[j]
            res = bor(res, band(eq, _lt_nanlast(a, b)))
            eq = band(eq, bnot(_lt_nanlast(a, b)), bnot(_lt_nanlast(b, a)))
        return res
    idx = list(range(n))
    for i in range(1, n):
        j = i
        while j > 0 and bool(mkbool(less(idx[j], idx[j - 1]))):
            idx[j], idx[j - 1] = idx[j - 1], idx[j]
            j -= 1
    return asarray(idx, _np.int64)


def _sorting_network(vals):
    """ite-based sort (no forks); NaN-free input assumed by callers"""
    v = list(vals)
    n = len(v)
    for i in range(n):
        for j in range(0, n - 1 - i):
            a, b = v[j], v[j + 1]
            c = bt(_num(a) > _num(b))
            v[j] = sym_ite(c, b, a)
            v[j + 1] = sym_ite(c, a, b)
    return v


def median(x, axis=None):
    x = asarray(x)

    def med(vals):
        vals = [_num(v) for v in vals]
        anynan = bor(*[s_isnan(v) for v in vals])
        s = _sorting_network(vals)
        n = len(s)
        m = s[n // 2] if n % 2 else (s[n // 2 - 1] + s[n // 2]) / 2.0
        if anynan is False:
            return m
        return sym_ite(sc.bsimp(anynan), nan, m)
    return x._reduce(med, axis, _fdt(x.dtype))


def percentile(x, q, axis=None, **kw):
    if isinstance(x, MaskedSel):
        x = x._mat()
    x = asarray(x)
    if axis is not None:
        raise ShimMissing("percentile axis")
    if x.is_concrete():
        return asarray(_np.percentile(x.to_numpy(), _np.asarray(q)))
    vals = [_num(v) for v in x.flat_values()]
    anynan = bor(*[s_isnan(v) for v in vals])
    s = _sorting_network(vals)
    n = len(s)

    def one(qq):
        pos = (n - 1) * float(qq) / 100.0
        lo = int(math.floor(pos))
        hi = _bi.min(lo + 1, n - 1)
        frac = pos - lo
        r = s[lo] + (s[hi] - s[lo]) * frac if frac else s[lo]
        r = SF.lift(r) if _is_sym(r) else r
        return sym_ite(sc.bsimp(anynan), nan, r) if anynan is not False else r
    if isinstance(q, (list, tuple, SymArray, _np.ndarray)):
        qs = asarray(q).flat_values()
        return SymArray.from_list([one(v) for v in qs], (len(qs),), _np.float64)
    return one(q)


# ----------------------------------------------------------------- shape manipulation
def reshape(a, shape, **kw):
    return asarray(a).reshape(shape)


def ravel(a):
    return asarray(a).ravel()


def transpose(a, axes=None):
    a = asarray(a)
    return a.transpose(*axes) if axes else a.T


def tile(a, reps):
    a = asarray(a)
    if isinstance(reps, int) and a.ndim == 1:
        return SymArray.from_list(a.flat_values() * reps, (a.size * reps,), a.dtype)
    if isinstance(reps, tuple) and len(reps) == 2 and a.ndim == 1:
        row = a.flat_values() * reps[1]
        return SymArray.from_list(row * reps[0], (reps[0], a.size * reps[1]), a.dtype)
    if a.is_concrete():
        return asarray(_np.tile(a.to_numpy(), reps))
    from . import symnp_extra
    return symnp_extra.tile(a, reps)


def repeat(a, n, axis=None):
    a = asarray(a)
    if axis is None and isinstance(n, int):
        return SymArray.from_list([v for v in a.flat_values() for _ in range(n)], (a.size * n,), a.dtype)
    if a.is_concrete():
        return asarray(_np.repeat(a.to_numpy(), n, axis=axis))
    raise ShimMissing("repeat")


def concatenate(arrs, axis=0, **kw):
    arrs = [asarray(a) for a in arrs]
    dt = _np.result_type(*[a.dtype for a in arrs])
    if axis is None:
        vals = [v for a in arrs for v in a.flat_values()]
        return SymArray.from_list(vals, (len(vals),), dt, cast=True)
    nd = arrs[0].ndim
    axis = axis if axis >= 0 else axis + nd
    if nd == 1 and _bi.all(a.dtype == dt for a in arrs):
        vals = []
        for a in arrs:
            vals.extend(a.flat_values())
        return SymArray.from_list(vals, (len(vals),), dt)
    # build via index arithmetic on a combined buffer
    buf = []
    idxs = []
    for a in arrs:
        off = len(buf)
        buf.extend(a.flat_values())
        idxs.append(_np.arange(a.size).reshape(a.shape) + off)
    idx = _np.concatenate(idxs, axis=axis)
    out = SymArray.from_list([buf[i] for i in idx.ravel()], idx.shape, dt, cast=True)
    return out


def stack(arrs, axis=0, **kw):
    arrs = [asarray(a) for a in arrs]
    nd = arrs[0].ndim + 1
    axis = axis if axis >= 0 else axis + nd
    exp = [SymArray(a._buf, _np.expand_dims(a._idx, axis), a.dtype) for a in arrs]
    return concatenate(exp, axis=axis)


def hstack(arrs):
    arrs = [asarray(a) for a in arrs]
    if arrs[0].ndim == 1:
        return concatenate(arrs, 0)
    return concatenate(arrs, 1)


def vstack(arrs):
    arrs = [asarray(a) for a in arrs]
    arrs = [a.reshape(1, -1) if a.ndim == 1 else a for a in arrs]
    return concatenate(arrs, 0)


def append(a, b, axis=None):
    a = asarray(a)
    b = asarray(b)
    if axis is None:
        return concatenate([a.ravel(), b.ravel()], 0)
    return concatenate([a, b], axis)


def expand_dims(a, axis):
    a = asarray(a)
    return SymArray(a._buf, _np.expand_dims(a._idx, axis), a.dtype, a._wr)


def squeeze(a, axis=None):
    return asarray(a).squeeze(axis)


def flip(a, axis=None):
    a = asarray(a)
    return SymArray(a._buf, _np.flip(a._idx, axis), a.dtype, a._wr)


def flipud(a):
    return flip(a, 0)


def fliplr(a):
    return flip(a, 1)


def rot90(a, k=1, axes=(0, 1)):
    a = asarray(a)
    return SymArray(a._buf, _np.rot90(a._idx, k, axes), a.dtype, a._wr)


def moveaxis(a, s, d):
    a = asarray(a)
    return SymArray(a._buf, _np.moveaxis(a._idx, s, d), a.dtype, a._wr)


def broadcast_to(a, shape):
    a = asarray(a)
    return SymArray(a._buf, _np.broadcast_to(a._idx, shape), a.dtype, False)


def pad(a, pad_width, mode='constant', constant_values=0, **kw):
    a = asarray(a)
    if mode == 'edge':
        from . import symnp_extra
        return symnp_extra.pad_edge(a, pad_width)
    if mode != 'constant':
        raise ShimMissing("pad mode " + mode)
    n = a.size
    idx = _np.pad(_np.arange(n).reshape(a.shape), pad_width, mode='constant', constant_values=-1)
    cv = a._cast(constant_values)
    vals = a.flat_values()
    return SymArray.from_list([vals[i] if i >= 0 else cv for i in idx.ravel()], idx.shape, a.dtype)


def gradient(f, *varargs, axis=None, **kw):
    f = asarray(f)
    if f.dtype.kind in 'iub':
        f = f.astype('float64')
    hs = list(varargs) if varargs else [1.0] * f.ndim
    if len(hs) == 1 and f.ndim > 1:
        hs = hs * f.ndim

    def along(ax, h):
        n = f.shape[ax]
        if n < 2:
            raise ValueError("Shape of array too small to calculate a numerical gradient")
        out = zeros(f.shape, _fdt(f.dtype))
        mv_in = _np.moveaxis(f._idx, ax, 0)
        mv_out = _np.moveaxis(out._idx, ax, 0)
        for i in range(n):
            for pin_prev, pin_next, pout, denom in [(mv_in[_bi.max(i - 1, 0)].ravel(), mv_in[_bi.min(i + 1, n - 1)].ravel(), mv_out[i].ravel(),
                                                     (1.0 if i in (0, n - 1) else 2.0) * h)]:
                for a, b, o in zip(pin_prev, pin_next, pout):
                    out._buf[o] = out._cast(_sdiv(f._buf[b] - f._buf[a], denom))
        return out
    axes = range(f.ndim) if axis is None else ([axis] if isinstance(axis, int) else list(axis))
    res = [along(ax, hs[i] if i < len(hs) else 1.0) for i, ax in enumerate(axes)]
    return res[0] if len(res) == 1 else (tuple(res) if _np.lib.NumpyVersion(_np.__version__) >= '2.0.0' else res)


def shares_memory(a, b):
    if not isinstance(a, SymArray) or not isinstance(b, SymArray):
        return False
    if a._buf is not b._buf:
        return False
    return bool(_np.intersect1d(a._idx.ravel(), b._idx.ravel()).size)


may_share_memory = shares_memory


def array_equal(a, b, **kw):
    a = asarray(a)
    b = asarray(b)
    if a.shape != b.shape:
        return False
    return mkbool(band(*[bt(x == y) for x, y in zip(a.flat_values(), b.flat_values())]))


def isscalar(x):
    return isinstance(x, (int, float, bool, SF, SI, SB, str, _np.generic))


def ndim(x):
    return asarray(x).ndim if not isscalar(x) else 0


def shape(x):
    return asarray(x).shape


def size(x):
    return asarray(x).size


def copy(a):
    return asarray(a).copy()


class _It:
    __slots__ = ('v',)

    def __init__(self, v):
        self.v = v

    def item(self):
        return self.v

    def __float__(self):
        return float(self.v)


def nditer(arrs, **kw):
    if isinstance(arrs, SymArray):
        # a single operand follows the same order rules as several (default 'K' = memory order)
        for tup in nditer([arrs], **kw):
            yield tup[0]
        return
    arrs = [asarray(a) for a in arrs]
    order = kw.get('order', 'K')
    fortran = order == 'F'
    if order in ('K', 'A') and arrs and _bi.all(a.ndim == 2 for a in arrs):
        # numpy's default order 'K' follows memory: the iteration is column-major iff every operand that has two real axes is laid out
        # with the row stride smaller than the column stride (a C-ordered operand wins any conflict) - npyiter_find_best_axis_ordering
        votes = []
        for a in arrs:
            if a.shape[0] > 1 and a.shape[1] > 1:
                idx = a._idx
                sy, sx = _bi.abs(int(idx[1, 0]) - int(idx[0, 0])), _bi.abs(int(idx[0, 1]) - int(idx[0, 0]))
                if sy and sx:
                    votes.append(sx > sy)
        fortran = bool(votes) and _bi.all(votes)
    flats = [(a.T if fortran and a.ndim == 2 else a).flat_values() for a in arrs]
    # python containers hash their keys: when any operand is symbolic, concrete numbers are lifted to constant symbolic
    # scalars too so that every value hashes alike and equality alone decides dict / set / Counter membership
    if _bi.any(_is_sym(v) for f in flats for v in f):
        flats = [[_lift_const(v) for v in f] for f in flats]
    for tup in zip(*flats):
        yield tuple(_It(v) for v in tup)


def _lift_const(v):
    if _is_sym(v):
        return v
    if isinstance(v, (bool, _np.bool_)):
        return v
    if isinstance(v, (int, _np.integer)):
        return SI.lift(int(v))
    if isinstance(v, (float, _np.floating)):
        return SF.lift(float(v))
    return v


def ndenumerate(a):
    a = asarray(a)
    for pos in _np.ndindex(a.shape):
        yield pos, a[pos]


ndindex = _np.ndindex


def vectorize(f, **kw):
    def g(a, *rest):
        a = asarray(a)
        rs = [asarray(r).flat_values() if isinstance(r, (SymArray, _np.ndarray, list)) else [r] * a.size for r in rest]
        out = [f(v, *[r[i] for r in rs]) for i, v in enumerate(a.flat_values())]
        return SymArray.from_list(out, a.shape, _infer_dtype(out), cast=True)
    return g


def _result_type(*a):
    return _np.result_type(*[x.dtype if isinstance(x, SymArray) else (_np.dtype(x) if isinstance(x, type) else x) for x in a])


result_type = _result_type


def isclose(a, b, rtol=1e-05, atol=1e-08, equal_nan=False):
    d = _absf(a - b)
    return d <= atol + rtol * _absf(b)


def allclose(a, b, **k):
    return globals()['all'](isclose(a, b, **k))


class _Ma:
    @staticmethod
    def count(a):
        if isinstance(a, MaskedSel):
            return a.count()
        if isinstance(a, _MaskedArray):
            return a.count()
        return asarray(a).size

    @staticmethod
    def masked_array(data, mask=None):
        return _MaskedArray(asarray(data), asarray(mask))

    @staticmethod
    def getmaskarray(a):
        if isinstance(a, _MaskedArray):
            return a.mask
        return zeros(asarray(a).shape, _np.bool_)


class _MaskedArray:
    def __init__(self, data, mask):
        self.data = data
        self.mask = mask
        self.dtype = data.dtype
        self.shape = data.shape

    def count(self):
        return s_sum([SI.lift(mkbool(bnot(bt(f)))) if isinstance(f, SB) else int(not f) for f in self.mask.flat_values()])

    # plain NumPy functions are not mask-aware: they see the underlying data (np.median(masked) uses every cell) ...
    def _sx_array_(self):
        return self.data

    def __len__(self):
        return len(self.data)

    @property
    def size(self):
        return self.data.size

    @property
    def ndim(self):
        return self.data.ndim

    def compressed(self):
        return self.data[~self.mask]

    # ... the methods are
    def _sel(self):
        return self.data[~self.mask]

    def mean(self, *a, **k): return self._sel().mean()
    def sum(self, *a, **k): return self._sel().sum()
    def max(self, *a, **k): return self._sel().max()
    def min(self, *a, **k): return self._sel().min()
    def std(self, *a, **k): return self._sel().std()
    def var(self, *a, **k): return self._sel().var()


ma = _Ma()


# ----------------------------------------------------------------- random (environment stub, see DESIGN 2.7)
class _Random:
    """concrete pass-through RNG: generators are driven with concrete seeds; the *initial* state is
    perturbed by harnesses that test independence from history (C11)."""

    def __init__(self):
        self._rs = _np.random.RandomState(0)
        self.calls = []

    def seed(self, s=None):
        self.calls.append(('seed', s))
        self._rs = _np.random.RandomState(int(s) if s is not None else None)

    def permutation(self, n):
        if isinstance(n, SymArray):
            self.calls.append(('permutation', 'array[%d]' % n.size))
            return asarray(self._rs.permutation(n.to_numpy()))
        self.calls.append(('permutation', n))
        return asarray(self._rs.permutation(int(n)))

    def rand(self, *shape):
        self.calls.append(('rand', shape))
        return asarray(self._rs.rand(*shape))

    def choice(self, a, size=None, **kw):
        self.calls.append(('choice',))
        a2 = a.to_numpy() if isinstance(a, SymArray) else a
        return asarray(self._rs.choice(a2, size, **kw))

    def shuffle(self, x):
        self.calls.append(('shuffle', len(x)))
        perm = list(range(len(x)))
        self._rs.shuffle(perm)
        vals = [x[i] for i in perm]
        for i, v in enumerate(vals):
            x[i] = v

    def RandomState(self, seed=None):
        r = _Random()
        r.seed(seed)
        return r

    def get_state(self):
        return self._rs.get_state()

    def set_state(self, s):
        self._rs.set_state(s)


random = _Random()


# ----------------------------------------------------------------- fallback: delegate concrete calls to real numpy
def _to_real(x):
    if isinstance(x, SymArray):
        return x.to_numpy()
    if isinstance(x, (list, tuple)):
        return type(x)(_to_real(v) for v in x)
    if _is_sym(x):
        c = as_const(x)
        if c is None:
            raise ShimMissing("symbolic argument to unshimmed numpy function")
        return c
    return x


def _from_real(x):
    if isinstance(x, _np.ndarray):
        return asarray(x)
    if isinstance(x, tuple):
        return tuple(_from_real(v) for v in x)
    if isinstance(x, list):
        return [_from_real(v) for v in x]
    return x


def __getattr__(name):
    if name.startswith('__'):
        raise AttributeError(name)
    real = getattr(_np, name)
    if callable(real) and not isinstance(real, type):
        def wrapper(*a, **k):
            try:
                ra = [_to_real(v) for v in a]
                rk = {kk: _to_real(v) for kk, v in k.items()}
            except ShimMissing:
                from . import symnp_extra
                f = symnp_extra.EXPORT.get(name)
                if f is not None:
                    return f(*a, **k)
                raise ShimMissing("numpy.%s with symbolic arguments is not shimmed" % name)
            return _from_real(real(*ra, **rk))
        wrapper.__name__ = name
        return wrapper
    return real
