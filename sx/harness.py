"""Harness runtime: symbolic / concrete contexts, parallel job runner, replay, evidence, findings."""
import hashlib
import importlib
import json
import math
import multiprocessing as mp
import os
import random
import sys
import time
import traceback

import numpy as _np
import z3

from . import core as sc
from . import symnp, symxr, symda, symmath, loader, wire, rt
from .core import SF, SI, SB, mkbool, bt, band, bor, bnot, bimp, bite, bz3
from .symnp import SymArray

VERIF = os.path.dirname(os.path.dirname(os.path.abspath(__file__)))
TOL32 = (1e-4, 1e-5)     # (rtol, atol) for results stored as float32 by the implementation
TOL64 = (1e-8, 1e-10)


# ----------------------------------------------------------------- polymorphic spec helpers
def And(*xs):
    return mkbool(band(*[bt(x) for x in xs]))


def Or(*xs):
    return mkbool(bor(*[bt(x) for x in xs]))


def Not(x):
    return mkbool(bnot(bt(x)))


def Implies(a, b):
    return mkbool(bimp(bt(a), bt(b)))


def Iff(a, b):
    a, b = bt(a), bt(b)
    return mkbool(band(bimp(a, b), bimp(b, a)))


def ite(c, a, b):
    c = bt(c)
    if c is True:
        return a
    if c is False:
        return b
    return sc.sym_ite(c, a, b)


def isnan(x):
    return symnp.isnan(x)


def isinf(x):
    return symnp.isinf(x)


def isfinite(x):
    return symnp.isfinite(x)


def absv(x):
    return abs(x)


def same(a, b):
    """identical value, NaN matches NaN (exact)"""
    if sc.is_sym(a) or sc.is_sym(b):
        return mkbool(SF.lift(a).same(b)) if isinstance(a, (SF, float)) or isinstance(b, (SF, float)) else mkbool(bt(a == b))
    a = _plain(a)
    b = _plain(b)
    if isinstance(a, float) and a != a:
        return isinstance(b, float) and b != b
    return a == b


def _plain(v):
    if isinstance(v, _np.generic):
        return v.item()
    if isinstance(v, SymArray) and v.size == 1:
        return _plain(v.item())
    return v


def Sum(xs):
    r = 0
    for x in xs:
        if isinstance(x, (SB, bool)):
            x = ite(x, 1, 0)
        r = r + x
    return r


def count_true(xs):
    return Sum([ite(x, 1, 0) for x in xs])


class Skip(Exception):
    """path outside the harness domain (treated like an infeasible path)"""


class BodyStop(Exception):
    """the library raised where the harness did not expect it: the claim 'no-unexpected-exception' has been recorded as failed, the rest of the body cannot run"""


UNEXPECTED = 'no-unexpected-exception'


# ----------------------------------------------------------------- contexts
class _BaseCtx:
    mode = None

    def __init__(self, job):
        self.job = job
        self.input_names = []
        self.observed = {}
        self.nchecks = 0
        self._loaded = None

    # numeric closeness with the 2x margin rule (see DESIGN 2.8)
    def close(self, a, b, tol=None):
        raise NotImplementedError

    def lib(self, modname):
        return loader.load(modname)

    def raises(self, fn, *a, **k):
        """-> exception type name or None (result stored in self.last)"""
        self._expecting = getattr(self, '_expecting', 0) + 1
        try:
            self.last = fn(*a, **k)
            return None
        except sc.Inconclusive:
            raise
        except (Skip, BodyStop):
            raise
        except wire.RemoteError as e:
            self.last = None
            return e.exc
        except Exception as e:
            self.last = None
            return type(e).__name__
        finally:
            self._expecting -= 1

    def _unexpected(self, target, exc_name, msg):
        """every library call not wrapped in ctx.raises carries the implicit claim that it returns"""
        self.check(UNEXPECTED, False, info={'target': target, 'exception': exc_name, 'message': str(msg)[:300]})
        raise BodyStop()


class SymCtx(_BaseCtx):
    mode = 'sym'

    def __init__(self, ex, job, result):
        _BaseCtx.__init__(self, job)
        self.ex = ex
        self.res = result
        self.inputs = {}      # name -> symbolic scalar / python value

    # ---- inputs
    def _reg(self, name, v):
        self.inputs[name] = v
        return v

    def real(self, name, nan=False, inf=False, lo=None, hi=None, f32=False):
        v = SF.fresh(name, nan=nan, inf=inf)
        if lo is not None:
            self.ex.assume(bor(v.special(), v.v >= lo))
        if hi is not None:
            self.ex.assume(bor(v.special(), v.v <= hi))
        return self._reg(name, v)

    def integer(self, name, lo=None, hi=None):
        v = SI(z3.Int(name))
        if lo is not None:
            self.ex.assume(v.t >= lo)
        if hi is not None:
            self.ex.assume(v.t <= hi)
        return self._reg(name, v)

    def boolean(self, name):
        return self._reg(name, SB(z3.Bool(name)))

    def fp32(self, name):
        """a bit-exact IEEE single (z3 FloatingPoint) - only for the float32 lemmas"""
        from . import fpv
        return self._reg(name, fpv.FPV.fresh(name, 32))

    def array(self, name, shape, dtype='float64', nan=True, inf=False, lo=None, hi=None, integral=False):
        dt = _np.dtype(dtype)
        n = int(_np.prod(shape))
        vals = []
        for i in range(n):
            nm = "%s[%d]" % (name, i)
            if dt.kind in 'iu':
                info = _np.iinfo(dt)
                l = info.min if lo is None else max(lo, info.min)
                h = info.max if hi is None else min(hi, info.max)
                vals.append(self.integer(nm, l, h))
            elif dt.kind == 'b':
                vals.append(self.boolean(nm))
            else:
                v = self.real(nm, nan=nan, inf=inf, lo=lo, hi=hi)
                if integral:
                    k = z3.Int(nm + '.int')
                    self.ex.assume(bor(v.special(), v.v == z3.ToReal(k)))
                vals.append(v)
        return SymArray.from_list(vals, tuple(shape), dt)

    def const(self, name, value):
        """a concrete harness parameter that should appear in replay files"""
        self.inputs[name] = value
        return value

    def assume(self, c):
        """harness assumption; a path that contradicts it is dropped (not proved vacuously)"""
        c = bt(c) if not isinstance(c, bool) else c
        if c is True:
            return
        self.ex.assume(c)
        if self.ex.trace or self.ex.pc:
            if not self.ex.feasible(True):
                raise sc.PathAbort()

    # ---- calls into the library
    def call(self, target, *args, **kwargs):
        modname, fname = target.split(':')
        m = loader.load(modname)
        f = m
        for part in fname.split('.'):
            f = getattr(f, part)
        if getattr(self, '_expecting', 0):
            return f(*args, **kwargs)
        try:
            return f(*args, **kwargs)
        except (sc.Inconclusive, Skip, BodyStop):
            raise
        except Exception as e:
            self._unexpected(target, type(e).__name__, e)

    def call_joint(self, calls):
        """calls: [(target, args, kwargs)] on dask-backed rasters; the lazy results are evaluated together in one graph (dask.compute(r1, r2, ...)).
        -> list of DataArrays holding the jointly computed values"""
        rets = [self.call(t, *a, **k) for (t, a, k) in calls]
        ws = symda.compute(*[r.data for r in rets])
        return [r._replace(w) for r, w in zip(rets, ws)]

    # ---- claims
    def close(self, a, b, tol=None):
        """a equals b (NaN matches NaN); with tol=(rtol, atol): |a-b| <= 2*(atol+rtol*|b|)"""
        if tol is None:
            return same(a, b)
        a = SF.lift(a)
        b = SF.lift(b)
        rtol, atol = tol
        d = a.v - b.v
        ab = z3.If(b.v >= 0, b.v, -b.v)
        lim = 2 * atol + 2 * rtol * ab
        fin = band(a.finite(), b.finite(), d <= lim, -d <= lim)
        return mkbool(bor(band(a.nan, b.nan), band(a.pinf, b.pinf), band(a.ninf, b.ninf), fin))

    def le(self, a, b, tol=None):
        """a <= b (+ slack)"""
        if tol is None:
            return a <= b
        rtol, atol = tol
        return a <= b + 2 * (atol + rtol * abs(b))

    def check(self, label, claim, info=None):
        self.nchecks += 1
        r = self.res
        r['reached'][label] = r['reached'].get(label, 0) + 1
        if label not in r['twin']:
            # reachability twin: `assert False` placed here must be violated, i.e. the path is satisfiable
            r['twin'][label] = bool(self.ex.feasible(True))
        if isinstance(claim, SB):
            claim = claim.t
        if claim is True:
            r['trivial'] = r.get('trivial', 0) + 1
            self.ex.stats.proved += 1
            return True
        m = self.ex.prove(claim)
        if m is None:
            return True
        cex = {'label': label, 'job': self.job, 'inputs': self.model_inputs(m), 'info': _jsonable(info(m) if callable(info) else info)}
        r['violations'].append(cex)
        # a few more, deliberately different, models of the same refutation: the solver's first pick may sit on a point where an
        # Ackermannised function value is unrealistic (does not replay); the parent replays them in turn until one is confirmed
        if r['more_models'].get(label, 0) < 2:
            r['more_models'][label] = r['more_models'].get(label, 0) + 1
            for m2 in self._more_models(claim, m, self.extra_models):
                r['violations'].append({'label': label, 'job': self.job, 'inputs': self.model_inputs(m2), 'info': _jsonable(info(m2) if callable(info) else info),
                                        'diversified': True})
        return False

    extra_models = 5

    def _more_models(self, claim, first, k):
        import random as _random
        ex = self.ex
        neg = z3.BoolVal(True) if claim is False else z3.Not(claim)
        scal = [(n, v) for n, v in self.inputs.items() if isinstance(v, (SF, SI))]
        if not scal or k <= 0:
            return []
        rnd = _random.Random(len(self.inputs) * 1009 + len(ex.trace))
        out = []
        prev = first
        for _ in range(k):
            cons = []
            chosen = [sv for sv in scal if rnd.random() < 0.6] or [rnd.choice(scal)]
            for (n, v) in chosen[:6]:
                t = v.v if isinstance(v, SF) else v.t
                try:
                    pv = prev.eval(t, model_completion=True)
                except z3.Z3Exception:
                    continue
                delta = rnd.choice((1, 2, 7, 40)) if isinstance(v, SI) else z3.RealVal(rnd.choice(('0.01', '0.5', '3', '20', '100')))
                cons.append(t > pv + delta if rnd.random() < 0.5 else t < pv - delta)
            keep = ex.model
            sat = False
            while cons and not sat:
                sat = ex._raw_check(z3.And(neg, *cons), quick=True)
                if not sat:
                    cons.pop(rnd.randrange(len(cons)))      # out of range in some direction: relax
            ex.model = keep
            if sat:
                out.append(ex.last_model)
                prev = ex.last_model
        return out

    def observe(self, label, value):
        self.observed[label] = value

    def session(self, name):
        """an independent 'interpreter': a separately loaded set of xrspatial modules (fresh module-level state) and a fresh global RNG"""
        return _ShimSession()

    def shares_memory(self, result, arg, argpos=0):
        """does the result share (writable) storage with the argument?  symbolic run: buffer identity of the shim arrays"""
        return bool(symnp.shares_memory(_data_of(result), _data_of(arg)))

    def model_inputs(self, m):
        out = {}
        for k, v in self.inputs.items():
            if type(v).__name__ == 'FPV':
                from . import fpv
                out[k] = fpv.ev(m, v)
            else:
                out[k] = sc.ev(m, v) if sc.is_sym(v) else v
        return out

    def ev(self, m, v):
        return ev_any(m, v)


UF_NAMES = {'sqrt', 'atan', 'atan2', 'sin', 'cos', 'tan', 'asin', 'exp', 'log'}
_uf_cache = {}


def _depends_on_uf(term):
    """does the z3 term mention a libm-stub variable whose model value is not the real function value?"""
    seen = set()
    stack = [term]
    while stack:
        t = stack.pop()
        i = t.get_id()
        if i in seen:
            continue
        seen.add(i)
        if z3.is_const(t) and t.decl().kind() == z3.Z3_OP_UNINTERPRETED:
            if t.decl().name().split('!')[0] in UF_NAMES:
                return True
        stack.extend(t.children())
    return False


def ev_obs(m, x):
    """model value of an observed scalar, or None when it depends on an axiomatised libm stub"""
    if type(x).__name__ == 'FPV':
        from . import fpv
        return fpv.ev(m, x)
    if isinstance(x, SF):
        for t in (x.nan, x.pinf, x.ninf, x.v):
            if not isinstance(t, bool) and _depends_on_uf(t):
                return None
    elif isinstance(x, (SI, SB)):
        if _depends_on_uf(x.t):
            return None
    return sc.ev(m, x)


def ev_any(m, v, obs=False):
    if obs:
        if isinstance(v, SymArray):
            return [ev_obs(m, x) for x in v.flat_values()]
        if isinstance(v, symxr.DataArray):
            return ev_any(m, v.values, True)
        if isinstance(v, (list, tuple)):
            return [ev_any(m, x, True) for x in v]
        if isinstance(v, dict):
            return {str(k): ev_any(m, x, True) for k, x in v.items()}
        return ev_obs(m, v) if (sc.is_sym(v) or type(v).__name__ == 'FPV') else _jsonable(v)
    if type(v).__name__ == 'FPV':
        return ev_obs(m, v)
    if isinstance(v, SymArray):
        return [ev_obs(m, x) if type(x).__name__ == 'FPV' else sc.ev(m, x) for x in v.flat_values()]
    if isinstance(v, symxr.DataArray):
        return ev_any(m, v.values)
    if isinstance(v, (list, tuple)):
        return [ev_any(m, x) for x in v]
    if isinstance(v, dict):
        return {str(k): ev_any(m, x) for k, x in v.items()}
    return sc.ev(m, v)


def _jsonable(o):
    if o is None or isinstance(o, (bool, int, str)):
        return o
    if isinstance(o, float):
        return o
    if isinstance(o, _np.generic):
        return o.item()
    if sc.is_sym(o):
        c = sc.as_const(o)
        return c if c is not None else repr(o)
    if isinstance(o, (list, tuple)):
        return [_jsonable(x) for x in o]
    if isinstance(o, dict):
        return {str(k): _jsonable(v) for k, v in o.items()}
    if isinstance(o, SymArray):
        return [_jsonable(x) for x in o.flat_values()]
    return repr(o)


class ConcCtx(_BaseCtx):
    """same body, concrete inputs, real library through the /venv worker"""
    mode = 'conc'

    def __init__(self, job, values):
        _BaseCtx.__init__(self, job)
        self.values = values
        self.failed = []
        self.passed = 0
        self.calls = []

    def _get(self, name):
        if name not in self.values:
            raise KeyError("replay input %r missing" % name)
        return self.values[name]

    def real(self, name, nan=False, inf=False, lo=None, hi=None, f32=False):
        return sc.F(self._get(name))

    def integer(self, name, lo=None, hi=None):
        return int(self._get(name))

    def boolean(self, name):
        return bool(self._get(name))

    def fp32(self, name):
        return sc.F(_np.float32(self._get(name)))

    def array(self, name, shape, dtype='float64', nan=True, inf=False, lo=None, hi=None, integral=False):
        dt = _np.dtype(dtype)
        n = int(_np.prod(shape))
        vals = []
        for i in range(n):
            v = self._get("%s[%d]" % (name, i))
            if dt.kind == 'f':
                v = sc.F(_np.array(v, dtype=dt))
            elif dt.kind in 'iu':
                v = int(v)
            else:
                v = bool(v)
            vals.append(v)
        return SymArray.from_list(vals, tuple(shape), dt)

    def const(self, name, value):
        return value

    def assume(self, c):
        if not bool(c):
            raise Skip()

    def call(self, target, *args, **kwargs):
        modname, fname = target.split(':')
        try:
            ret, after = wire.worker().call('xrspatial.' + modname, fname, list(args), kwargs)
        except wire.RemoteError as e:
            if getattr(self, '_expecting', 0):
                raise
            self._unexpected(target, e.exc, e)
        # propagate in-place mutation of array arguments back to the caller's objects
        for a, b in zip(args, after):
            _copy_back(a, b)
        self.calls.append(target)
        return ret

    def call_joint(self, calls):
        if self.mode == 'shim':
            rets = [self.call(t, *a, **k) for (t, a, k) in calls]
            ws = symda.compute(*[r.data for r in rets])
            return [r._replace(w) for r, w in zip(rets, ws)]
        try:
            return wire.worker().joint([('xrspatial.' + t.split(':')[0], t.split(':')[1], list(a), k) for (t, a, k) in calls])
        except wire.RemoteError as e:
            if getattr(self, '_expecting', 0):
                raise
            self._unexpected('joint:' + ','.join(t for (t, _, _) in calls), e.exc, e)

    def close(self, a, b, tol=None):
        a = _plain(a)
        b = _plain(b)
        fa = isinstance(a, float)
        fb = isinstance(b, float)
        if (fa and a != a) or (fb and b != b):
            return (fa and a != a) and (fb and b != b)
        if tol is None:
            return a == b
        if (fa and math.isinf(a)) or (fb and math.isinf(b)):
            return a == b
        rtol, atol = tol
        return abs(a - b) <= atol + rtol * abs(b)

    def le(self, a, b, tol=None):
        a = _plain(a)
        b = _plain(b)
        if tol is None:
            return a <= b
        rtol, atol = tol
        return a <= b + (atol + rtol * abs(b))

    def session(self, name):
        if self.mode == 'shim':
            return _ShimSession()
        ses = _WorkerSession()
        self._sessions = getattr(self, '_sessions', []) + [ses]
        return ses

    def shares_memory(self, result, arg, argpos=0):
        if self.mode == 'shim':
            return bool(symnp.shares_memory(_data_of(result), _data_of(arg)))
        sh = getattr(wire.worker(), 'last_shares', [])
        return bool(sh[argpos]) if argpos < len(sh) else False

    def check(self, label, claim, info=None):
        self.nchecks += 1
        ok = bool(claim)
        if ok:
            self.passed += 1
        else:
            self.failed.append({'label': label, 'info': _jsonable(info(None) if callable(info) else info)})
        return ok

    def observe(self, label, value):
        self.observed[label] = value

    def ev(self, m, v):
        return _jsonable(v)


def _data_of(o):
    if isinstance(o, symxr.DataArray):
        o = o.data
    if isinstance(o, symda.Array):
        o = o._whole if o._whole is not None else o.compute()
    return o


class _ShimSession:
    def __init__(self):
        self.inst = loader.fresh_instance()
        self.rng = symnp._Random()

    def call(self, target, *args, **kwargs):
        modname, fname = target.split(':')
        m = self.inst.load(modname)
        f = m
        for part in fname.split('.'):
            f = getattr(f, part)
        saved = symnp.random
        symnp.random = self.rng          # the process-global numpy RNG of this 'interpreter'
        try:
            return f(*args, **kwargs)
        finally:
            symnp.random = saved

    def module(self, modname):
        return self.inst.load(modname)

    def close(self):
        pass


class _WorkerSession:
    def __init__(self):
        self.w = wire.Worker()

    def call(self, target, *args, **kwargs):
        modname, fname = target.split(':')
        ret, after = self.w.call('xrspatial.' + modname, fname, list(args), kwargs)
        for a, b in zip(args, after):
            _copy_back(a, b)
        return ret

    def module(self, modname):
        return None

    def close(self):
        self.w.close()


class ShimConcCtx(ConcCtx):
    """concrete inputs through the *shimmed* re-import of the real source (validates shims + AST pre-pass)"""
    mode = 'shim'

    def call(self, target, *args, **kwargs):
        modname, fname = target.split(':')
        m = loader.load(modname)
        f = m
        for part in fname.split('.'):
            f = getattr(f, part)
        if getattr(self, '_expecting', 0):
            return f(*args, **kwargs)
        try:
            return f(*args, **kwargs)
        except (sc.Inconclusive, Skip, BodyStop):
            raise
        except Exception as e:
            self._unexpected(target, type(e).__name__, e)


def _copy_back(a, b):
    if isinstance(a, SymArray) and isinstance(b, SymArray) and a.shape == b.shape:
        av = a.flat_values()
        bv = b.flat_values()
        if any(not _same_plain(x, y) for x, y in zip(av, bv)):
            wr = a._wr
            a._wr = True
            a[...] = b
            a._wr = wr
    elif isinstance(a, symxr.DataArray) and isinstance(b, symxr.DataArray):
        if isinstance(a.data, SymArray) and isinstance(b.data, SymArray):
            _copy_back(a.data, b.data)
        if a.attrs != b.attrs:
            a.attrs.clear()
            a.attrs.update(b.attrs)
    elif isinstance(a, (list, tuple)) and isinstance(b, (list, tuple)):
        for x, y in zip(a, b):
            _copy_back(x, y)


def _same_plain(x, y):
    if isinstance(x, float) and x != x:
        return isinstance(y, float) and y != y
    return x == y


# ----------------------------------------------------------------- one exploration task (runs in a pool process)
def _new_result():
    return {'violations': [], 'reached': {}, 'twin': {}, 'samples': [], 'trivial': 0, 'more_models': {}}


def run_task(task):
    """task: dict(prop, job, prefixes, slice_s, sample_every, seed) -> result dict"""
    prop = importlib.import_module('props.' + task['prop'])
    job = task['job']
    res = _new_result()
    ex = sc.Explorer(seed=task.get('seed', 0))
    ex.worklist = [list(p) for p in task['prefixes']]
    rnd = random.Random(task.get('seed', 0) * 7919 + hash(json.dumps(job, sort_keys=True)) % 100003)
    want_samples = task.get('samples', 2)
    err = None
    skipped = [0]

    def fn(ex):
        ctx = SymCtx(ex, job, res)
        try:
            prop.body(ctx, job)
        except Skip:
            skipped[0] += 1
            raise sc.PathAbort()
        except BodyStop:
            pass
        if ctx.nchecks and len(res['samples']) < want_samples and (rnd.random() < 0.3 or not res['samples']):
            try:
                m = ex.ensure_model()
                res['samples'].append({'job': job, 'inputs': ctx.model_inputs(m),
                                       'observed': {k: ev_any(m, v, True) for k, v in ctx.observed.items()},
                                       'path_len': len(ex.trace)})
            except sc.PathAbort:
                pass
        if len(res['violations']) >= 3:
            # enough candidates from this task: hand them to the parent for replay; the rest of the subtree is re-queued
            res['stopped'] = True
            res['saved_worklist'] = list(ex.worklist)
            ex.worklist = []
    t0 = time.time()
    done = False
    try:
        done = ex.explore(fn, slice_s=task.get('slice_s'))
    except sc.Inconclusive as e:
        err = "%s: %s" % (type(e).__name__, e)
    except Exception as e:
        err = "HARNESS %s: %s\n%s" % (type(e).__name__, e, traceback.format_exc()[-1500:])
    res['stats'] = ex.stats.as_dict()
    res['remaining'] = res.pop('saved_worklist', None) or ex.worklist
    res['done'] = done
    res['error'] = err
    res['wall'] = time.time() - t0
    res['skipped'] = skipped[0]
    res['axioms'] = sorted(ex.axioms_used)
    res['merge'] = dict(rt.STATS)
    res['job'] = job
    return res


# ----------------------------------------------------------------- findings
def load_findings():
    p = os.path.join(VERIF, 'known_findings.json')
    if not os.path.exists(p):
        return []
    return json.load(open(p)).get('findings', [])


def match_finding(findings, prop_id, cex):
    """a 'known' entry suppresses a violation whose (label, job) match the recorded pattern"""
    import re
    for f in findings:
        if f.get('property') != prop_id or f.get('status') != 'known':
            continue
        if f.get('label') and not re.fullmatch(f['label'], cex['label']):
            continue
        jm = f.get('job_match') or {}
        if all(str(cex['job'].get(k)) == str(v) or (isinstance(v, str) and re.fullmatch(v, str(cex['job'].get(k)))) for k, v in jm.items()):
            return f
    return None


# ----------------------------------------------------------------- the check driver
def replay_concrete(prop, job, inputs, shim=False):
    ctx = (ShimConcCtx if shim else ConcCtx)(job, inputs)
    try:
        prop.body(ctx, job)
        status = 'ran'
    except Skip:
        status = 'skipped'
    except BodyStop:
        status = 'ran (library raised)'
    except wire.RemoteError as e:
        status = 'remote-exception %s' % e
    finally:
        for ses in getattr(ctx, '_sessions', []):
            ses.close()
    return ctx, status


def _cmp_observed(sym_obs, conc_obs, tol=(1e-3, 1e-4)):
    """engine outputs under the path model vs real outputs"""
    n = 0
    bad = 0
    for k, sv in sym_obs.items():
        if k not in conc_obs:
            continue
        cv = _jsonable(conc_obs[k])
        a = _flat(sv)
        b = _flat(cv)
        if len(a) != len(b):
            bad += 1
            n += 1
            continue
        for x, y in zip(a, b):
            if x is None:
                continue
            n += 1
            if isinstance(x, (int, float)) and isinstance(y, (int, float)) and not isinstance(x, bool):
                if (x != x) != (y != y):
                    bad += 1
                elif x == x and abs(x - y) > tol[1] + tol[0] * abs(y):
                    bad += 1
            elif x != y:
                bad += 1
    return n, bad


def _flat(v):
    if isinstance(v, (list, tuple)):
        out = []
        for x in v:
            out += _flat(x)
        return out
    if isinstance(v, dict):
        out = []
        for k in sorted(v):
            out += _flat(v[k])
        return out
    return [v]


def run_check(prop_id, tier='quick', seed=0, budget_s=None, procs=None, replay_samples=None, verbose=True):
    t0 = time.time()
    sys.path.insert(0, VERIF)
    prop = importlib.import_module('props.' + prop_id)
    jobs = prop.jobs(tier, seed)
    only = os.environ.get('VERIF_JOBS')          # development aid: substring filter; evidence then goes to a side directory
    if only:
        jobs = [j for j in jobs if only in j.get('name', '')]
    meta = getattr(prop, 'META', {})
    budget_s = budget_s or meta.get('budget_s', {}).get(tier, 150 if tier == 'quick' else 1500)
    procs = procs or int(os.environ.get('VERIF_PROCS', '16'))
    replay_samples = replay_samples if replay_samples is not None else meta.get('replay_samples', {}).get(tier, 12 if tier == 'quick' else 40)
    findings = load_findings()
    strict = os.environ.get('VERIF_STRICT') == '1'

    total = sc.Stats()
    reached = {}
    twin = {}
    samples = []
    violations = []
    errors = []
    axioms = set()
    jobs_done = 0
    jobs_partial = 0
    skipped = 0
    trivial = 0
    pending = [{'prop': prop_id, 'job': j, 'prefixes': [[]], 'slice_s': meta.get('slice_s', 5), 'seed': seed,
                'samples': 1} for j in jobs]
    job_state = {json.dumps(j, sort_keys=True): {'open': 1, 'partial': False} for j in jobs}
    stop = False
    confirmed = []
    known = []
    unconfirmed = []
    replayed = {}
    seen = {}
    ctxm = mp.get_context('fork')
    pool = ctxm.Pool(processes=min(procs, max(1, len(pending))) if len(pending) < procs else procs)
    inflight = []
    try:
        while (pending or inflight) and not stop:
            while pending and len(inflight) < procs * 2:
                t = pending.pop(0)
                inflight.append((t, pool.apply_async(run_task, (t,))))
            time.sleep(0.02)
            still = []
            for (t, ar) in inflight:
                if not ar.ready():
                    still.append((t, ar))
                    continue
                r = ar.get()
                key = json.dumps(t['job'], sort_keys=True)
                js = job_state[key]
                js['open'] -= 1
                js['paths'] = js.get('paths', 0) + r['stats']['paths']
                js['cpu'] = js.get('cpu', 0.0) + r['wall']
                total.add(r['stats'])
                skipped += r['skipped']
                trivial += r.get('trivial', 0)
                axioms |= set(r['axioms'])
                for k, v in r['reached'].items():
                    reached[k] = reached.get(k, 0) + v
                for k, v in r['twin'].items():
                    twin[k] = twin.get(k, False) or v
                samples += r['samples']
                if r['error']:
                    errors.append({'job': t['job'], 'error': r['error']})
                    js['partial'] = True
                for cex in r['violations']:
                    if stop:
                        break           # one confirmed violation is enough: do not spend minutes replaying the rest
                    k = (cex['label'], key)
                    # which counterexamples of a (claim, job) are replayed: the first four, then a geometric schedule (6th, 8th, 12th, 16th, 24th, ...)
                    # so that late paths get their turn too when the early ones sit on an unrealistic point; at most `replays_per_label` replays
                    seen[k] = seen.get(k, 0) + 1
                    n_seen = seen[k]
                    due = n_seen <= 4 or (n_seen & (n_seen - 1)) == 0 or ((n_seen % 3 == 0) and ((n_seen // 3) & (n_seen // 3 - 1)) == 0)
                    if not due or replayed.get(k, 0) >= meta.get("replays_per_label", 12):
                        continue
                    replayed[k] = replayed.get(k, 0) + 1
                    try:
                        cctx, status = replay_concrete(prop, cex['job'], cex['inputs'])
                    except Exception as e:
                        unconfirmed.append(dict(cex, replay_status="replay crashed: %s: %s" % (type(e).__name__, e)))
                        continue
                    if cctx.failed:
                        cex = dict(cex, replay_failed=cctx.failed, replay_status=status)
                        f = match_finding(findings, prop_id, cex)
                        if f:
                            known.append((f, cex))
                        else:
                            confirmed.append(cex)
                            stop = True
                    else:
                        unconfirmed.append(dict(cex, replay_status=status + ' / all %d concrete checks passed' % cctx.passed))
                        if cex['label'] == UNEXPECTED:
                            # the engine raised where the real build does not: a fault of the shims, never a pass
                            errors.append({'job': t['job'], 'error': 'HARNESS engine raised %s, the real code does not: %s' % (json.dumps(cex['info'])[:400], json.dumps(cex['inputs'])[:300])})
                if r['remaining']:
                    if time.time() - t0 > budget_s:
                        js['partial'] = True
                    else:
                        rem = r['remaining']
                        # split the remaining prefixes over several tasks (work stealing by re-queueing)
                        nsplit = min(len(rem), max(1, procs // 2))
                        for i in range(nsplit):
                            part = rem[i::nsplit]
                            if part:
                                js['open'] += 1
                                pending.append(dict(t, prefixes=part, samples=0))
                if js['open'] == 0:
                    if js['partial']:
                        jobs_partial += 1
                    else:
                        jobs_done += 1
            inflight = still
            if time.time() - t0 > budget_s and pending:
                for t in pending:
                    job_state[json.dumps(t['job'], sort_keys=True)]['partial'] = True
                pending = []
    finally:
        pool.terminate()
        pool.join()
    for key, js in job_state.items():
        if js['open'] > 0:
            jobs_partial += 1

    # ---- translator validation on passing path models
    rnd = random.Random(seed)
    rnd.shuffle(samples)
    validated = 0
    tv_mismatch = 0
    tv_claim_fail = []
    tv_cells = 0
    shown = []
    mismatch_detail = []
    if not confirmed:
        for s in samples[:replay_samples]:
            try:
                cctx, status = replay_concrete(prop, s['job'], s['inputs'])
            except Exception as e:
                errors.append({'job': s['job'], 'error': 'sample replay crashed: %s: %s' % (type(e).__name__, e)})
                continue
            if not status.startswith('ran'):
                continue
            n, bad = _cmp_observed(s['observed'], cctx.observed)
            # the same concrete inputs through the shimmed source: every observed cell must agree with the real build
            try:
                sc.EX = None
                sctx, sstatus = replay_concrete(prop, s['job'], s['inputs'], shim=True)
                if sstatus.startswith('ran'):
                    n2, bad2 = _cmp_observed({k: _jsonable(v) for k, v in sctx.observed.items()}, cctx.observed)
                    n += n2
                    bad += bad2
                    if sctx.failed and not cctx.failed:
                        bad += 1
            except sc.Inconclusive:
                pass
            except Exception as e:
                errors.append({'job': s['job'], 'error': 'shim-concrete run crashed: %s: %s' % (type(e).__name__, e)})
            tv_cells += n
            if cctx.failed:
                tv_claim_fail.append({'job': s['job'], 'inputs': s['inputs'], 'failed': cctx.failed})
            if bad:
                tv_mismatch += 1
                mismatch_detail.append({'job': s['job'], 'inputs': _trim(s['inputs']), 'engine': _trim(_jsonable_deep(s['observed']), 6),
                                        'real': _trim(_jsonable_deep({k: _jsonable(v) for k, v in cctx.observed.items()}), 6)})
            elif not cctx.failed:
                validated += 1
            if len(shown) < 3:
                shown.append({'job': s['job'], 'inputs': _trim(s['inputs']), 'path_len': s['path_len'], 'engine_vs_real_cells': n,
                              'mismatching_cells': bad})
    wire.close_worker()

    # a claim that fails concretely on a passing-path model is a violation found by replay of a solver model
    for tf in tv_claim_fail:
        cex = {'label': tf['failed'][0]['label'], 'job': tf['job'], 'inputs': tf['inputs'], 'info': tf['failed'][0].get('info'),
               'replay_failed': tf['failed'], 'replay_status': 'found while validating a passing path model (engine/real divergence)'}
        f = match_finding(findings, prop_id, cex)
        if f:
            known.append((f, cex))
        elif strict:
            confirmed.append(cex)
        else:
            unconfirmed.append(cex)

    wall = time.time() - t0
    twin_ok = bool(twin) and all(twin.values())
    exhaustive = (jobs_partial == 0 and not errors and not stop)
    inconclusive = bool(errors) and not confirmed
    level = getattr(prop, 'LEVEL', 'model_checking')
    cov = {
        'states': max(total.paths, 1),
        'transitions': max(total.sat + total.unsat + total.unknown, 1),
        'traces_validated_against_impl': validated,
        'samples': shown or [{'job': jobs[0] if jobs else None}],
        'paths_completed': total.paths,
        'paths_infeasible_or_outside_domain': total.aborted,
        'queries': {'sat': total.sat, 'unsat': total.unsat, 'unknown': total.unknown, 'portfolio_fallbacks': total.fallback},
        'obligations_proved': total.proved,
        'obligations_refuted': total.refuted,
        'obligations_trivially_true': trivial,
        'solver_time_s': round(total.solver_s, 2),
        'jobs': len(jobs), 'jobs_exhausted': jobs_done, 'jobs_partial': jobs_partial,
        'exhaustive': exhaustive,
        'reachability_twin_ok': twin_ok,
        'assertions_reached': reached,
        'engine_vs_real_cells_compared': tv_cells,
        'engine_vs_real_samples_mismatching': tv_mismatch,
        'engine_vs_real_mismatch_detail': mismatch_detail[:3],
        'unreproduced_counterexamples': len(unconfirmed),
        'functions_encoded': meta.get('functions', []),
        'sources': dict(loader.SOURCES),
        'bounds': meta.get('bounds', {}).get(tier, meta.get('bounds')),
        'stubs': meta.get('stubs', []),
        'axioms': sorted(axioms),
        'outside_claim': meta.get('outside', []),
        'errors': errors[:5],
        'per_job': {json.loads(k)['name']: {'paths': v.get('paths', 0), 'cpu_s': round(v.get('cpu', 0.0), 1), 'complete': not v['partial'] and v['open'] == 0}
                    for k, v in job_state.items()},
        'known_findings_hit': [f['id'] for f, _ in known],
        'rule': 'one state = one feasible path of the real code under the symbolic shims, explored to its end with every assertion decided by z3; '
                'transitions = solver queries (branch feasibility + proof obligations)',
    }
    ev = {'property_id': prop_id, 'tier': tier, 'seed': seed, 'level': level, 'coverage': cov,
          'assumptions': meta.get('assumptions', []), 'wall_s': round(wall, 2), 'violations': len(confirmed)}
    if unconfirmed:
        cov['unreproduced_detail'] = [{'label': u['label'], 'job': u['job'], 'status': u.get('replay_status')} for u in unconfirmed[:5]]
    EVD = os.environ.get('VERIF_EVIDENCE_DIR') or os.path.join(VERIF, 'evidence-partial' if only else 'evidence')
    os.makedirs(EVD, exist_ok=True)
    # source hashes are collected in child processes; recompute in the parent for the evidence
    try:
        cov['sources'] = source_hashes(meta.get('modules', []))
    except Exception:
        pass
    with open(os.path.join(EVD, prop_id + '.json'), 'w') as f:
        json.dump(_jsonable_deep(ev), f, indent=1)

    out = []
    for f, cex in known:
        out.append("KNOWN-FINDING: property=%s %s" % (prop_id, f.get('what', f['id'])))
    rc = 0
    if confirmed:
        os.makedirs(os.path.join(VERIF, 'replays', prop_id), exist_ok=True)
        for cex in confirmed[:3]:
            h = hashlib.sha256(json.dumps(_jsonable_deep(cex), sort_keys=True).encode()).hexdigest()[:12]
            p = os.path.join(VERIF, 'replays', prop_id, h + '.json')
            with open(p, 'w') as f:
                json.dump(_jsonable_deep(cex), f, indent=1)
            out.append("VIOLATION property=%s replay=%s" % (prop_id, p))
            out.append("  label=%s job=%s" % (cex['label'], json.dumps(cex['job'])))
            out.append("  failed concretely on the real code: %s" % json.dumps(_jsonable_deep(cex.get('replay_failed'))[:2]))
        rc = 1
    elif inconclusive:
        out.append("INCONCLUSIVE property=%s %s" % (prop_id, errors[0]['error'].splitlines()[0]))
        rc = 2
    elif unconfirmed and strict:
        out.append("HARNESS-ERROR property=%s counterexample did not reproduce on the real code: %s" % (prop_id, json.dumps(_jsonable_deep(unconfirmed[0]))[:600]))
        rc = 3
    elif not twin_ok:
        out.append("INCONCLUSIVE property=%s reachability twin failed (no assertion was reached on a satisfiable path)" % prop_id)
        rc = 2
    summary = ("%s %s: jobs=%d (exhausted %d, partial %d) paths=%d queries=%d proved=%d refuted=%d twin=%s validated=%d/%d "
               "unreproduced=%d wall=%.1fs solver=%.1fs" % (prop_id, tier, len(jobs), jobs_done, jobs_partial, total.paths,
                                                          total.sat + total.unsat, total.proved, total.refuted, twin_ok,
                                                          validated, min(len(samples), replay_samples), len(unconfirmed), wall, total.solver_s))
    if verbose:
        print(summary)
        for l in out:
            print(l)
        if errors and verbose:
            for e in errors[:3]:
                print("  error:", e['error'][:800])
        if unconfirmed:
            print("  note: %d solver counterexample(s) did not reproduce on the real code (reported in evidence, not as violations)" % len(unconfirmed))
            if os.environ.get('VERIF_DEBUG'):
                print(json.dumps(_jsonable_deep(unconfirmed[0]))[:3000])
        sys.stdout.flush()
    return rc


def _trim(d, n=40):
    if isinstance(d, dict) and len(d) > n:
        keys = list(d)[:n]
        out = {k: d[k] for k in keys}
        out['...'] = '%d more' % (len(d) - n)
        return out
    return d


def _jsonable_deep(o):
    if isinstance(o, dict):
        return {str(k): _jsonable_deep(v) for k, v in o.items()}
    if isinstance(o, (list, tuple)):
        return [_jsonable_deep(v) for v in o]
    if isinstance(o, float):
        if o != o:
            return 'NaN'
        if o in (math.inf, -math.inf):
            return 'Infinity' if o > 0 else '-Infinity'
        return o
    if isinstance(o, _np.generic):
        return _jsonable_deep(o.item())
    if o is None or isinstance(o, (bool, int, str)):
        return o
    return repr(o)


def source_hashes(mods):
    out = {}
    for m in mods:
        p = os.path.join(loader.REPO, 'xrspatial', *m.split('.')) + '.py'
        if os.path.exists(p):
            out['xrspatial/' + m.replace('.', '/') + '.py'] = hashlib.sha256(open(p, 'rb').read()).hexdigest()[:16]
    return out


def replay_file(prop_id, path):
    sys.path.insert(0, VERIF)
    prop = importlib.import_module('props.' + prop_id)
    cex = json.load(open(path))
    inputs = _unjson(cex['inputs'])
    cctx, status = replay_concrete(prop, cex['job'], inputs)
    wire.close_worker()
    print("replay %s: %s; concrete checks failed=%d passed=%d" % (path, status, len(cctx.failed), cctx.passed))
    for f in cctx.failed:
        print("  FAILED", json.dumps(_jsonable_deep(f))[:800])
    return 1 if cctx.failed else 0


def _unjson(o):
    if isinstance(o, dict):
        return {k: _unjson(v) for k, v in o.items()}
    if isinstance(o, list):
        return [_unjson(v) for v in o]
    if o == 'NaN':
        return math.nan
    if o == 'Infinity':
        return math.inf
    if o == '-Infinity':
        return -math.inf
    return o
