"""User-supplied reducers handed to the library by harnesses.  Pure Python over the array
interface so that the same function runs on SymArray (symbolic run) and numpy (replay)."""


def _nan_to(v, repl):
    """v if v is not NaN else repl - without forking when v is symbolic"""
    if type(v).__name__ == 'SF':
        from sx import core
        return core.sym_ite(v.nan, repl, v)
    return repl if v != v else v


def _valid01(v):
    if type(v).__name__ == 'SF':
        from sx import core
        return core.sym_ite(v.nan, 0.0, 1.0)
    return 0.0 if v != v else 1.0


def pos_weighted_sum(window):
    """sum_i (i+1) * w_i over the non-NaN entries of the flattened window (exposes transposition / mirroring)"""
    flat = window.ravel()
    tot = 0.0
    for i in range(flat.shape[0]):
        tot = tot + (i + 1) * _nan_to(flat[i], 0.0)
    return tot


def count_valid(window):
    flat = window.ravel()
    n = 0.0
    for i in range(flat.shape[0]):
        n = n + _valid01(flat[i])
    return n


def range_reducer(z):
    return z.max() - z.min()


def size_reducer(z):
    """a user statistic that does not know about masks: how many cells it was handed (must be the valid cells of the zone, nothing else)"""
    return z.shape[0] * 1.0


# numba-compilable twins used by the replay worker (the real focal.apply calls the reducer from nopython code)
try:
    import numba as _nb
    import numpy as _np

    @_nb.njit
    def pos_weighted_sum_numba(window):
        flat = window.ravel()
        tot = 0.0
        for i in range(flat.shape[0]):
            if not _np.isnan(flat[i]):
                tot += (i + 1) * flat[i]
        return tot

    @_nb.njit
    def count_valid_numba(window):
        flat = window.ravel()
        n = 0.0
        for i in range(flat.shape[0]):
            if not _np.isnan(flat[i]):
                n += 1.0
        return n
except ImportError:
    pass


def halo_probe(block):
    """position-sensitive block function of reach 2 (used to validate the dask contract shim against real dask):
    out[i, j] = sum_{|di|,|dj| <= 2} (3*di + dj + 7) * block[i+di, j+dj], cells outside the block contribute -7"""
    h, w = block.shape
    out = block * 0.0
    for i in range(h):
        for j in range(w):
            tot = 0.0
            for di in (-2, -1, 0, 1, 2):
                for dj in (-2, -1, 0, 1, 2):
                    y, x = i + di, j + dj
                    if 0 <= y < h and 0 <= x < w:
                        v = block[y, x]
                        tot = tot + (3 * di + dj + 7) * (v if v == v else 100.0)
                    else:
                        tot = tot - 7.0
            out[i, j] = tot
    return out


def shape_probe(block):
    """reveals the block shape a block function is called with"""
    h, w = block.shape
    return block * 0.0 + (h * 10 + w)
