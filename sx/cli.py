import argparse
import os
import sys

sys.setrecursionlimit(20000)
HERE = os.path.dirname(os.path.dirname(os.path.abspath(__file__)))
sys.path.insert(0, HERE)


def main():
    ap = argparse.ArgumentParser()
    ap.add_argument('prop', nargs='?')
    ap.add_argument('--selftest', action='store_true')
    ap.add_argument('--tier', default=os.environ.get('VERIF_TIER', 'quick'))
    ap.add_argument('--replay')
    ap.add_argument('--budget', type=float)
    ap.add_argument('--procs', type=int)
    a = ap.parse_args()
    from sx import harness
    if a.selftest:
        from sx import selftest
        sys.exit(selftest.main())
    if a.replay:
        sys.exit(harness.replay_file(a.prop, a.replay))
    seed = int(os.environ.get('VERIF_SEED', '0') or 0)
    try:
        rc = harness.run_check(a.prop, a.tier, seed, budget_s=a.budget, procs=a.procs)
    except Exception as e:
        import traceback
        traceback.print_exc()
        print("HARNESS-ERROR property=%s %s: %s" % (a.prop, type(e).__name__, e))
        rc = 3
    sys.exit(rc)


if __name__ == '__main__':
    main()
