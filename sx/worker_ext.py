"""helpers executed inside the /venv worker (real numpy / dask available)"""


def shim_selftest():
    """placeholder: extended below (dask differential lives in dask_differential)"""
    return []
