"""helpers executed inside the /venv worker (real numpy / dask available)"""
import math

import numpy as np


def _enc(v):
    if isinstance(v, np.ndarray):
        return {'shape': list(v.shape), 'kind': v.dtype.kind, 'vals': [_enc(x) for x in v.ravel().tolist()]}
    if isinstance(v, (np.generic,)):
        v = v.item()
    if isinstance(v, float):
        if v != v:
            return 'nan'
        if v in (math.inf, -math.inf):
            return 'inf' if v > 0 else '-inf'
        return v
    if isinstance(v, (bool, int, str)) or v is None:
        return v
    if isinstance(v, (tuple, list)):
        return [_enc(x) for x in v]
    return repr(v)


def numpy_eval(cases):
    """cases: [[expr, {name: {'data': nested list, 'dtype': str}}], ...] -> encoded results with real numpy"""
    out = []
    for expr, inputs in cases:
        env = {'np': np, 'nan': math.nan, 'inf': math.inf}
        for k, spec in inputs.items():
            env[k] = np.array(spec['data'], dtype=spec['dtype'])
        try:
            import warnings
            with warnings.catch_warnings():
                warnings.simplefilter('ignore')
                out.append(_enc(eval(expr, env)))
        except Exception as e:
            out.append({'exc': type(e).__name__})
    return out


def dask_eval(cases):
    """cases: [[op, data, dtype, chunks, depth, boundary], ...] with op in map_overlap / map_blocks probes"""
    import dask.array as da
    from sx import userfuncs
    out = []
    for op, data, dtype, chunks, depth, boundary in cases:
        a = np.array(data, dtype=dtype)
        x = da.from_array(a, chunks=tuple(tuple(c) for c in chunks))
        try:
            if op == 'overlap-halo':
                r = x.map_overlap(userfuncs.halo_probe, depth=tuple(depth), boundary=boundary, meta=np.array(()))
            elif op == 'overlap-shape':
                r = x.map_overlap(userfuncs.shape_probe, depth=tuple(depth), boundary=boundary, meta=np.array(()))
            elif op == 'blocks-shape':
                r = x.map_blocks(userfuncs.shape_probe)
            elif op == 'nanmean':
                r = da.nanmean(x)
            else:
                raise KeyError(op)
            out.append(_enc(np.asarray(r.compute())))
        except Exception as e:
            out.append({'exc': type(e).__name__})
    return out


def shim_selftest():
    return []
