"""More of the NumPy surface for symbolic arrays, built from the primitives of sx.symnp.

None of these is used by the pinned xrspatial source; they exist so that a *changed* source that reaches for a neighbouring NumPy function is
still executed symbolically instead of ending in ShimMissing (= inconclusive).  Every function is validated against real NumPy by the self test
(sx/selftest.py, NUMPY_CASES_EXTRA).
"""
import math

import numpy as _np

from . import core as sc
from . import symnp as S
from .core import SF, SI, SB, ShimMissing, sym_ite, bt, mkbool, band, bor, bnot

nan = float('nan')
inf = float('inf')


def _sym(x):
    return S._is_sym(x)


def _lt(a, b):
    """a < b as a boolean term / python bool (NaN compares false)"""
    r = a < b
    return r


def _ite(c, a, b):
    if isinstance(c, (bool, _np.bool_)):
        return a if c else b
    return sym_ite(bt(c), a, b)


# ------------------------------------------------------------------ element-wise
def _sign1(x):
    if _sym(x):
        x = SF.lift(x) if isinstance(x, (SI, SB)) else x
        return _ite(S.isnan(x), nan, _ite(x > 0, 1.0, _ite(x < 0, -1.0, 0.0)))
    if isinstance(x, float) and x != x:
        return nan
    return type(x)((x > 0) - (x < 0)) if not isinstance(x, bool) else x


def sign(x):
    x = S.asarray(x) if isinstance(x, (S.SymArray, list, tuple, _np.ndarray)) else x
    if isinstance(x, S.SymArray):
        return x._map(_sign1, x.dtype)
    return _sign1(S._unnp(x))


def _trunc1(x):
    if _sym(x):
        x = SF.lift(x)
        t = sc.sym_trunc_int(x)
        r = SF.lift(t)
        return SF(x.nan, r.v, x.pinf, x.ninf)
    return float(math.trunc(x)) if math.isfinite(x) else x


def _rint1(x):
    """round half to even"""
    if _sym(x):
        x = SF.lift(x)
        f = sc.sym_floor(x + 0.5)          # SF with integer value
        fi = sc.sym_trunc_int(f)
        tie = (x + 0.5) == f
        odd = mkbool((fi.t % 2) != 0) if isinstance(fi, SI) else bool(fi % 2)
        r = _ite(mkbool(band(bt(tie), bt(odd))), f - 1.0, f)
        r = SF.lift(r)
        return SF(x.nan, r.v, x.pinf, x.ninf)
    if not math.isfinite(x):
        return x
    return float(round(x))


def _ew1(f):
    def g(x, *a, **k):
        if isinstance(x, (S.SymArray, list, tuple, _np.ndarray)):
            x = S.asarray(x)
            return x._map(f, S._fdt(x.dtype))
        return f(S._unnp(x))
    return g


trunc = _ew1(_trunc1)
fix = trunc
rint = _ew1(_rint1)


def round_(a, decimals=0, **kw):
    if decimals != 0:
        scale = 10.0 ** decimals
        return rint(a * scale) / scale
    return rint(a)


around = round_


def clip(a, a_min=None, a_max=None, **kw):
    a = S.asarray(a)
    return a.clip(a_min, a_max)


def power(a, p):
    if isinstance(p, (int, float)) and float(p) == int(p) and 0 <= int(p) <= 8:
        n = int(p)
        a = S.asarray(a) if isinstance(a, (S.SymArray, list, tuple, _np.ndarray)) else a
        r = a * 0 + 1 if n == 0 else a
        for _ in range(n - 1):
            r = r * a
        return r
    if isinstance(p, (int, float)) and p == 0.5:
        return S.sqrt(a)
    raise ShimMissing("numpy.power with a symbolic / non-small-integer exponent")


float_power = power


def hypot(a, b):
    return S.sqrt(a * a + b * b)


def isposinf(x):
    return S.isinf(x) & (x > 0)


def isneginf(x):
    return S.isinf(x) & (x < 0)


def nan_to_num(x, copy=True, nan=0.0, posinf=None, neginf=None):
    big = float(_np.finfo('float64').max)
    posinf = big if posinf is None else posinf
    neginf = -big if neginf is None else neginf
    x = S.asarray(x)
    r = S.where(S.isnan(x), nan, x)
    r = S.where(isposinf(x), posinf, r)
    r = S.where(isneginf(x), neginf, r)
    return r


def floor_divide(a, b):
    return a // b


def log10(x):
    return S.log(x) / math.log(10.0)


def log2(x):
    return S.log(x) / math.log(2.0)


def isin(element, test_elements, **kw):
    el = S.asarray(element)
    tv = list(S.asarray(test_elements).ravel().flat_values())
    if not tv:
        return el._map(lambda v: False, _np.dtype('bool'))

    def f(v):
        r = False
        for t in tv:
            e = (v == t)
            r = e if r is False else mkbool(bor(bt(r), bt(e)))
        return r
    return el._map(f, _np.dtype('bool'))


def select(condlist, choicelist, default=0):
    out = default
    for c, ch in reversed(list(zip(condlist, choicelist))):
        out = S.where(c, ch, out)
    return out


# ------------------------------------------------------------------ ordering / binning
def _count(conds):
    tot = 0
    for c in conds:
        if isinstance(c, (bool, _np.bool_)):
            tot = tot + int(c)
        else:
            tot = tot + SI.lift(sym_ite(bt(c), SI.lift(1), SI.lift(0)))
    return tot


def searchsorted(a, v, side='left', sorter=None):
    if sorter is not None:
        raise ShimMissing("searchsorted(sorter=)")
    av = list(S.asarray(a).ravel().flat_values())

    def one(x):
        # number of elements strictly below x (left) / not above x (right); NaN sorts last like in NumPy
        if side == 'left':
            return _count([mkbool(bor(bt(e < x), band(bt(S.isnan(x)), bnot(bt(S.isnan(e)))))) if (_sym(e) or _sym(x)) else ((e < x) or (x != x and e == e)) for e in av])
        return _count([mkbool(bor(bt(e <= x), bt(S.isnan(x)))) if (_sym(e) or _sym(x)) else ((e <= x) or (x != x)) for e in av])
    if isinstance(v, (S.SymArray, list, tuple, _np.ndarray)):
        v = S.asarray(v)
        return v._map(one, _np.dtype('int64'))
    return one(S._unnp(v))


def digitize(x, bins, right=False):
    bv = list(S.asarray(bins).ravel().flat_values())
    if any(_sym(b) for b in bv):
        inc = True          # symbolic bins: the documented precondition (monotonically increasing) is assumed
    else:
        inc = all(bv[i] <= bv[i + 1] for i in range(len(bv) - 1))
        if not inc and not all(bv[i] >= bv[i + 1] for i in range(len(bv) - 1)):
            raise ValueError("bins must be monotonically increasing or decreasing")
    if inc:
        return searchsorted(bv, x, side='left' if right else 'right')
    n = len(bv)
    r = searchsorted(bv[::-1], x, side='left' if right else 'right')
    return n - r


# ------------------------------------------------------------------ shape / order
def swapaxes(a, ax1, ax2):
    a = S.asarray(a)
    axes = list(range(a.ndim))
    axes[ax1], axes[ax2] = axes[ax2], axes[ax1]
    return S.transpose(a, axes)


def roll(a, shift, axis=None):
    a = S.asarray(a)
    if axis is None:
        flat = a.ravel()
        n = flat.size
        if n == 0:
            return a.copy()
        k = shift % n
        return S.concatenate([flat[n - k:], flat[:n - k]]).reshape(a.shape) if k else a.copy()
    n = a.shape[axis]
    k = shift % n if n else 0
    if not k:
        return a.copy()
    idx_a = [slice(None)] * a.ndim
    idx_b = [slice(None)] * a.ndim
    idx_a[axis] = slice(n - k, None)
    idx_b[axis] = slice(0, n - k)
    return S.concatenate([a[tuple(idx_a)], a[tuple(idx_b)]], axis=axis)


def tile(a, reps):
    a = S.asarray(a)
    reps = (reps,) if isinstance(reps, int) else tuple(reps)
    while a.ndim < len(reps):
        a = a[None]
    reps = (1,) * (a.ndim - len(reps)) + reps
    for ax, r in enumerate(reps):
        if r != 1:
            a = S.concatenate([a] * r, axis=ax)
    return a


def dstack(arrs):
    out = []
    for a in arrs:
        a = S.asarray(a)
        if a.ndim == 1:
            a = a[None, :, None]
        elif a.ndim == 2:
            a = a[:, :, None]
        out.append(a)
    return S.concatenate(out, axis=2)


def atleast_1d(a):
    a = S.asarray(a)
    return a.reshape(1) if a.ndim == 0 else a


def atleast_2d(a):
    a = S.asarray(a)
    if a.ndim == 0:
        return a.reshape(1, 1)
    if a.ndim == 1:
        return a[None, :]
    return a


def take(a, indices, axis=None, **kw):
    a = S.asarray(a)
    if axis is None:
        return a.ravel()[indices]
    idx = [slice(None)] * a.ndim
    idx[axis] = indices
    return a[tuple(idx)]


def copyto(dst, src, **kw):
    dst[...] = src


def cumsum(a, axis=None, **kw):
    a = S.asarray(a)
    if axis is None:
        vals = list(a.ravel().flat_values())
        out = []
        acc = None
        for v in vals:
            acc = v if acc is None else acc + v
            out.append(acc)
        return S.SymArray.from_list(out, (len(out),), a.dtype if a.dtype.kind == 'f' else _np.dtype('int64') if a.dtype.kind in 'iub' else a.dtype, cast=True)
    parts = []
    idx = [slice(None)] * a.ndim
    acc = None
    for i in range(a.shape[axis]):
        idx[axis] = slice(i, i + 1)
        sl = a[tuple(idx)]
        acc = sl if acc is None else acc + sl
        parts.append(acc)
    return S.concatenate(parts, axis=axis)


def diff(a, n=1, axis=-1, **kw):
    a = S.asarray(a)
    for _ in range(n):
        hi = [slice(None)] * a.ndim
        lo = [slice(None)] * a.ndim
        hi[axis] = slice(1, None)
        lo[axis] = slice(None, -1)
        a = a[tuple(hi)] - a[tuple(lo)]
    return a


def sort_axis(a, axis=-1):
    """np.sort of an n-d array along an axis: one 1-d sort per lane"""
    a = S.asarray(a)
    if a.ndim == 1:
        return S.sort(a)
    moved = S.transpose(a, [i for i in range(a.ndim) if i != axis % a.ndim] + [axis % a.ndim])
    shp = moved.shape
    lanes = moved.reshape(-1, shp[-1])
    rows = [S.sort(lanes[i]) for i in range(lanes.shape[0])]
    out = S.stack(rows).reshape(shp)
    inv = list(range(a.ndim - 1))
    inv.insert(axis % a.ndim, a.ndim - 1)
    return S.transpose(out, inv)


def flatnonzero(a):
    return S.nonzero(S.asarray(a).ravel())[0]


def dot(a, b):
    a = S.asarray(a)
    b = S.asarray(b)
    if a.ndim == 1 and b.ndim == 1:
        return (a * b).sum()
    if a.ndim == 2 and b.ndim == 1:
        return S.stack([(a[i] * b).sum() for i in range(a.shape[0])])
    if a.ndim == 2 and b.ndim == 2:
        return S.stack([S.stack([(a[i] * b[:, j]).sum() for j in range(b.shape[1])]) for i in range(a.shape[0])])
    raise ShimMissing("numpy.dot beyond 2-d")


matmul = dot


def outer(a, b):
    a = S.asarray(a).ravel()
    b = S.asarray(b).ravel()
    return a[:, None] * b[None, :]


def average(a, axis=None, weights=None, **kw):
    a = S.asarray(a)
    if weights is None:
        return a.mean(axis=axis)
    w = S.asarray(weights)
    return (a * w).sum(axis=axis) / w.sum(axis=axis)


def quantile(a, q, axis=None, **kw):
    if isinstance(q, (list, tuple, _np.ndarray)):
        q = [float(x) * 100.0 for x in q]
    else:
        q = float(q) * 100.0
    return S.percentile(a, q, axis=axis, **kw)


def nanpercentile(a, q, axis=None, **kw):
    if axis is not None:
        raise ShimMissing("nanpercentile(axis=)")
    a = S.asarray(a)
    return S.percentile(a[~S.isnan(a)], q)


def nanmedian(a, axis=None, **kw):
    return nanpercentile(a, 50.0, axis=axis)


def nanquantile(a, q, axis=None, **kw):
    return nanpercentile(a, [float(x) * 100 for x in q] if isinstance(q, (list, tuple, _np.ndarray)) else float(q) * 100.0, axis=axis)


def _nanarg(a, worst, fn):
    a = S.asarray(a)
    return fn(S.where(S.isnan(a), worst, a))


def nanargmax(a, axis=None):
    if axis is not None:
        raise ShimMissing("nanargmax(axis=)")
    return _nanarg(a, -inf, S.argmax)


def nanargmin(a, axis=None):
    if axis is not None:
        raise ShimMissing("nanargmin(axis=)")
    return _nanarg(a, inf, S.argmin)


def apply_along_axis(func1d, axis, arr, *args, **kwargs):
    arr = S.asarray(arr)
    if arr.ndim != 2:
        raise ShimMissing("apply_along_axis beyond 2-d")
    if axis in (1, -1):
        return S.stack([S.asarray(func1d(arr[i], *args, **kwargs)) for i in range(arr.shape[0])])
    return S.stack([S.asarray(func1d(arr[:, j], *args, **kwargs)) for j in range(arr.shape[1])], axis=-1)


def pad_edge(a, pad_width):
    """np.pad(mode='edge') for 2-d arrays"""
    a = S.asarray(a)
    if isinstance(pad_width, int):
        pad_width = ((pad_width, pad_width),) * a.ndim
    pad_width = [(p, p) if isinstance(p, int) else tuple(p) for p in pad_width]
    for ax, (lo, hi) in enumerate(pad_width):
        idx0 = [slice(None)] * a.ndim
        idx1 = [slice(None)] * a.ndim
        idx0[ax] = slice(0, 1)
        idx1[ax] = slice(a.shape[ax] - 1, a.shape[ax])
        a = S.concatenate([a[tuple(idx0)]] * lo + [a] + [a[tuple(idx1)]] * hi, axis=ax)
    return a


EXPORT = {
    'sign': sign, 'trunc': trunc, 'fix': fix, 'rint': rint, 'round': round_, 'round_': round_, 'around': around, 'clip': clip, 'power': power, 'float_power': float_power, 'hypot': hypot,
    'isposinf': isposinf, 'isneginf': isneginf, 'nan_to_num': nan_to_num, 'floor_divide': floor_divide, 'log10': log10, 'log2': log2, 'isin': isin, 'select': select,
    'searchsorted': searchsorted, 'digitize': digitize, 'swapaxes': swapaxes, 'roll': roll, 'tile': tile, 'dstack': dstack, 'atleast_1d': atleast_1d, 'atleast_2d': atleast_2d, 'take': take,
    'copyto': copyto, 'cumsum': cumsum, 'diff': diff, 'flatnonzero': flatnonzero, 'dot': dot, 'matmul': matmul, 'outer': outer, 'average': average, 'quantile': quantile,
    'nanpercentile': nanpercentile, 'nanmedian': nanmedian, 'nanquantile': nanquantile, 'nanargmax': nanargmax, 'nanargmin': nanargmin, 'apply_along_axis': apply_along_axis,
}
