"""Mini xarray: the part of DataArray / Dataset that xarray-spatial's wrappers use.

Mirrors xarray's constructor semantics that matter for the properties: attrs are
shallow-copied into a new dict, coords are wrapped (1-d coordinate variables are
not copied), data is wrapped without copying.
"""
import numpy as _np

from . import symnp
from .symnp import SymArray
from . import core as sc


def _is_dask(x):
    from . import symda
    return isinstance(x, symda.Array)


def _as_data(x):
    from . import symda
    if isinstance(x, (SymArray, symda.Array, _Labels)):
        return x
    if isinstance(x, DataArray):
        return x.data
    return symnp.asarray(x)


class Coords(dict):
    """name -> coordinate DataArray (1-d along its own dim, or scalar)"""

    def __init__(self, owner=None):
        dict.__init__(self)
        self._owner = owner

    def copy(self):
        c = Coords(self._owner)
        c.update(self)
        return c


class _Indexes:
    def __init__(self, da):
        self._da = da

    def get(self, k, default=None):
        if k in self._da.coords and k in self._da.dims:
            return _Index(self._da.coords[k].data)
        return default

    def __getitem__(self, k):
        r = self.get(k)
        if r is None:
            raise KeyError(k)
        return r

    def __contains__(self, k):
        return k in self._da.coords and k in self._da.dims


class _Index:
    def __init__(self, data):
        self.values = data

    def __len__(self):
        return len(self.values)


class DataArray:
    __slots__ = ('_data', 'dims', 'coords', 'attrs', 'name')

    def __init__(self, data=None, coords=None, dims=None, name=None, attrs=None, **kw):
        if isinstance(data, DataArray):
            if coords is None:
                coords = data.coords
            if dims is None:
                dims = data.dims
            if attrs is None:
                attrs = data.attrs
            if name is None:
                name = data.name
            data = data.data
        self._data = _as_data(data)
        nd = len(self._data.shape)
        if dims is None:
            if isinstance(coords, (list, tuple)) and coords and isinstance(coords[0], tuple):
                dims = tuple(c[0] for c in coords)
            elif isinstance(coords, dict) and not isinstance(coords, Coords) and len(coords) == nd and nd > 0 and False:
                dims = tuple(coords)
            else:
                dims = tuple('dim_%d' % i for i in range(nd))
        if isinstance(dims, str):
            dims = (dims,)
        self.dims = tuple(dims)
        if len(self.dims) != nd:
            raise ValueError("different number of dimensions on data and dims: %d vs %d" % (nd, len(self.dims)))
        self.coords = Coords(self)
        if coords is not None:
            items = coords.items() if isinstance(coords, dict) else None
            if items is None:
                if isinstance(coords, (list, tuple)):
                    if coords and isinstance(coords[0], tuple) and isinstance(coords[0][0], str):
                        items = [(c[0], c[1]) for c in coords]
                    else:
                        items = list(zip(self.dims, coords))
                else:
                    raise TypeError("coords")
            for k, v in items:
                self.coords[k] = self._mk_coord(k, v)
        self.attrs = dict(attrs) if attrs is not None else {}
        self.name = name

    def _mk_coord(self, k, v):
        if isinstance(v, DataArray):
            if v.dims in ((k,), ()):
                c = DataArray.__new__(DataArray)
                c._data = v._data
                c.dims = v.dims
                c.coords = Coords(c)
                c.attrs = dict(v.attrs)
                c.name = k
                c.coords[k] = c
                if c.dims == (k,) and k in self.dims and c.shape[0] != self.shape[self.dims.index(k)]:
                    raise ValueError("conflicting sizes for dimension %r" % k)
                return c
            v = v.data
        if isinstance(v, tuple) and len(v) == 2 and isinstance(v[0], (str, tuple)):
            v = v[1]
        d = _as_data(v if not isinstance(v, (int, float, sc.SF, sc.SI)) else symnp.asarray(v))
        c = DataArray.__new__(DataArray)
        c._data = d
        c.dims = (k,) if len(d.shape) == 1 else tuple('dim_%d' % i for i in range(len(d.shape)))
        if len(d.shape) == 1 and k in self.dims and d.shape[0] != self.shape[self.dims.index(k)]:
            raise ValueError("conflicting sizes for dimension %r: length %d on the data but length %d on coordinate" % (k, self.shape[self.dims.index(k)], d.shape[0]))
        c.coords = Coords(c)
        c.attrs = {}
        c.name = k
        c.coords[k] = c
        return c

    # ---- data access
    @property
    def data(self):
        return self._data

    @data.setter
    def data(self, v):
        v = _as_data(v)
        if tuple(v.shape) != tuple(self._data.shape):
            raise ValueError("replacement data must match the shape of the original")
        self._data = v

    @property
    def values(self):
        d = self._data
        if _is_dask(d):
            return d.compute()
        return d

    @values.setter
    def values(self, v):
        self.data = v

    @property
    def shape(self):
        return tuple(self._data.shape)

    @property
    def ndim(self):
        return len(self._data.shape)

    @property
    def size(self):
        return int(_np.prod(self.shape)) if self.shape else 1

    @property
    def dtype(self):
        return self._data.dtype

    @property
    def chunks(self):
        return getattr(self._data, 'chunks', None)

    @property
    def sizes(self):
        return dict(zip(self.dims, self.shape))

    @property
    def indexes(self):
        return _Indexes(self)

    @property
    def T(self):
        return self.transpose()

    def __len__(self):
        return self.shape[0]

    def __getattr__(self, name):
        # coordinate access by attribute (agg.x), as xarray allows
        if name.startswith('_') or name in ('dims', 'coords', 'attrs', 'name'):
            raise AttributeError(name)
        try:
            coords = object.__getattribute__(self, 'coords')
        except AttributeError:
            raise AttributeError(name)
        if name in coords:
            return coords[name]
        raise AttributeError(name)

    def _sx_array_(self):
        return self.values

    def __array__(self, dtype=None, copy=None):
        return self.values.__array__(dtype)

    def item(self):
        return self.values.item()

    def compute(self):
        return DataArray(self.values, coords=self.coords, dims=self.dims, attrs=self.attrs, name=self.name)

    def copy(self, deep=True, data=None):
        d = self._data if data is None else _as_data(data)
        if deep and data is None:
            d = d.copy()
        out = DataArray(d, dims=self.dims, attrs=dict(self.attrs), name=self.name)
        for k, c in self.coords.items():
            out.coords[k] = out._mk_coord(k, DataArray(c._data.copy() if deep else c._data, dims=c.dims, attrs=c.attrs, name=k) if True else c)
        return out

    def astype(self, dt, **kw):
        return self._replace(self._data.astype(dt))

    def _replace(self, data, dims=None):
        out = DataArray.__new__(DataArray)
        out._data = data
        out.dims = self.dims if dims is None else dims
        out.coords = Coords(out)
        for k, c in self.coords.items():
            if not c.dims or all(d in out.dims for d in c.dims):
                out.coords[k] = c
        out.attrs = dict(self.attrs)
        out.name = self.name
        return out

    def rename(self, new=None, **kw):
        out = self._replace(self._data)
        if isinstance(new, str) or new is None and not kw:
            out.name = new
            return out
        mp = dict(new or {}, **kw)
        out.dims = tuple(mp.get(d, d) for d in self.dims)
        out.coords = Coords(out)
        for k, c in self.coords.items():
            nk = mp.get(k, k)
            out.coords[nk] = out._mk_coord(nk, c._data)
        return out

    def assign_attrs(self, *a, **kw):
        out = self._replace(self._data)
        for d in a:
            out.attrs.update(d)
        out.attrs.update(kw)
        return out

    def assign_coords(self, coords=None, **kw):
        out = self._replace(self._data)
        for k, v in dict(coords or {}, **kw).items():
            out.coords[k] = out._mk_coord(k, v)
        return out

    def transpose(self, *dims):
        if not dims:
            dims = tuple(reversed(self.dims))
        axes = [self.dims.index(d) for d in dims]
        return self._replace(self._data.transpose(*axes), dims=tuple(dims))

    def to_dataset(self, dim=None, name=None):
        if dim is None:
            return Dataset({name or self.name: self}, attrs=self.attrs)
        ax = self.dims.index(dim)
        labels = self.coords[dim].values.flat_values() if dim in self.coords else list(range(self.shape[ax]))
        out = {}
        for i, lab in enumerate(labels):
            key = [slice(None)] * self.ndim
            key[ax] = i
            out[sc.as_const(lab) if sc.is_sym(lab) else lab] = self[tuple(key)]
        return Dataset(out, attrs=self.attrs)

    # ---- indexing
    def __getitem__(self, key):
        if isinstance(key, str):
            return self.coords[key]
        if not isinstance(key, tuple):
            key = (key,)
        if isinstance(key[0], dict):
            return self.isel(key[0])
        key = tuple(key) + (slice(None),) * (self.ndim - len(key))
        nlist = sum(1 for k in key if isinstance(k, (list, SymArray, _np.ndarray)))
        if nlist > 1:
            # xarray indexes orthogonally (outer product of the per-dimension selections)
            data = self._data
            for ax, k in enumerate(key):
                if isinstance(k, (list, SymArray, _np.ndarray)):
                    data = data[(slice(None),) * ax + (k,)]
            rest = tuple(k if not isinstance(k, (list, SymArray, _np.ndarray)) else slice(None) for k in key)
            data = data[rest]
        else:
            data = self._data[key]
        newdims = []
        newcoords = {}
        for d, k in zip(self.dims, key):
            c = self.coords.get(d)
            if isinstance(k, slice) or isinstance(k, (list, SymArray, _np.ndarray)):
                newdims.append(d)
                if c is not None:
                    newcoords[d] = c._data[k]
            else:
                if c is not None:
                    newcoords[d] = c._data[k]   # scalar coord
        if not hasattr(data, 'shape'):
            data = symnp.asarray(data)
        out = DataArray.__new__(DataArray)
        out._data = data
        out.dims = tuple(newdims)
        out.coords = Coords(out)
        for k, c in self.coords.items():
            if k in newcoords:
                v = newcoords[k]
                out.coords[k] = out._mk_coord(k, v if hasattr(v, 'shape') else symnp.asarray(v))
            elif not c.dims:
                out.coords[k] = c
        out.attrs = dict(self.attrs)
        out.name = self.name
        return out

    def __setitem__(self, key, val):
        if isinstance(key, str):
            self.coords[key] = self._mk_coord(key, val)
            return
        self._data[key] = val.data if isinstance(val, DataArray) else val

    def isel(self, indexers=None, **kw):
        ind = dict(indexers or {}, **kw)
        key = tuple(ind.get(d, slice(None)) for d in self.dims)
        return self[key]

    def sel(self, indexers=None, method=None, **kw):
        ind = dict(indexers or {}, **kw)
        key = []
        for d in self.dims:
            if d not in ind:
                key.append(slice(None))
                continue
            want = ind[d]
            cv = self.coords[d].values
            seq = isinstance(want, (list, tuple, SymArray, _np.ndarray))
            wants = list(want.flat_values()) if isinstance(want, SymArray) else (list(want) if seq else [want])
            pos = []
            for w in wants:
                if method == 'nearest':
                    dist = symnp.absolute(cv - w)
                    p = dist.argmin()
                    pos.append(int(p))
                else:
                    hits = [i for i, v in enumerate(cv.flat_values()) if bool(v == w)]
                    if not hits:
                        raise KeyError(w)
                    pos.append(hits[0])
            key.append(pos if seq else pos[0])
        return self[tuple(key)]

    # ---- arithmetic / reductions (thin)
    def _bin(self, o, f):
        od = o.data if isinstance(o, DataArray) else o
        return self._replace(f(self._data, od))

    def __add__(self, o): return self._bin(o, lambda a, b: a + b)
    def __radd__(self, o): return self._bin(o, lambda a, b: b + a)
    def __sub__(self, o): return self._bin(o, lambda a, b: a - b)
    def __rsub__(self, o): return self._bin(o, lambda a, b: b - a)
    def __mul__(self, o): return self._bin(o, lambda a, b: a * b)
    def __rmul__(self, o): return self._bin(o, lambda a, b: b * a)
    def __truediv__(self, o): return self._bin(o, lambda a, b: a / b)
    def __neg__(self): return self._replace(-self._data)
    def __lt__(self, o): return self._bin(o, lambda a, b: a < b)
    def __le__(self, o): return self._bin(o, lambda a, b: a <= b)
    def __gt__(self, o): return self._bin(o, lambda a, b: a > b)
    def __ge__(self, o): return self._bin(o, lambda a, b: a >= b)
    def __eq__(self, o): return self._bin(o, lambda a, b: a == b)
    def __ne__(self, o): return self._bin(o, lambda a, b: a != b)
    __hash__ = None

    def _red(self, name, dim=None, **kw):
        if dim is not None:
            dims_red = [dim] if isinstance(dim, str) else list(dim)
            data = self.values
            keep = [d for d in self.dims if d not in dims_red]
            for d in dims_red:
                cur = [x for x in self.dims if x not in dims_red[:dims_red.index(d)]]
                data = getattr(symnp, name)(data, axis=cur.index(d))
            return self._replace(symnp.asarray(data), dims=tuple(keep))
        v = getattr(symnp, name)(self.values)
        out = DataArray(symnp.asarray(v))
        return out

    def min(self, dim=None, **kw): return self._red('nanmin' if self.dtype.kind == 'f' else 'min', dim)
    def max(self, dim=None, **kw): return self._red('nanmax' if self.dtype.kind == 'f' else 'max', dim)
    def sum(self, dim=None, **kw): return self._red('nansum' if self.dtype.kind == 'f' else 'sum', dim)
    def mean(self, dim=None, **kw): return self._red('nanmean' if self.dtype.kind == 'f' else 'mean', dim)

    def isnull(self):
        return self._replace(symnp.isnan(self.values))

    # ---- a wider slice of the DataArray surface (unused by the pinned source; keeps a changed source executable)
    def notnull(self):
        return self._replace(~symnp.isnan(self.values))

    def fillna(self, value):
        v = value.data if isinstance(value, DataArray) else value
        return self._replace(symnp.where(symnp.isnan(self.values), v, self.values))

    def clip(self, min=None, max=None, **kw):
        return self._replace(self._data.clip(min, max) if not _is_dask(self._data) else self._data._lazy(lambda w: w.clip(min, max)))

    def round(self, decimals=0):
        return self._replace(symnp.round(self.values, decimals))

    def __abs__(self):
        return self._replace(abs(self._data))

    def __pow__(self, p):
        return self._replace(self._data ** p)

    def __and__(self, o): return self._bin(o, lambda a, b: a & b)
    def __or__(self, o): return self._bin(o, lambda a, b: a | b)
    def __invert__(self): return self._replace(~self._data)

    def to_numpy(self):
        return self.values

    def load(self):
        if _is_dask(self._data):
            self._data = self._data.compute()
        return self

    def persist(self):
        return self

    def chunk(self, chunks=None, **kw):
        from . import symda
        if _is_dask(self._data):
            return self._replace(self._data.rechunk(chunks if chunks is not None else kw))
        spec = chunks if chunks is not None else kw
        shp = self.shape
        if isinstance(spec, dict):
            spec = tuple(spec.get(d, shp[i]) for i, d in enumerate(self.dims))
        if isinstance(spec, int):
            spec = (spec,) * len(shp)
        grid = []
        for n, c in zip(shp, spec):
            if isinstance(c, (tuple, list)):
                grid.append(tuple(c))
            else:
                c = n if c in (-1, None) else int(c)
                grid.append(tuple([c] * (n // c) + ([n % c] if n % c else [])))
        return self._replace(symda.Array(self._data, tuple(grid)))

    def get_axis_num(self, dim):
        return self.dims.index(dim)

    def squeeze(self, dim=None, drop=False, **kw):
        keep = [i for i, (d, n) in enumerate(zip(self.dims, self.shape)) if not (n == 1 and (dim is None or d == dim or (isinstance(dim, (list, tuple)) and d in dim)))]
        data = self.values.reshape(tuple(self.shape[i] for i in keep))
        return self._replace(data, dims=tuple(self.dims[i] for i in keep))

    def expand_dims(self, dim=None, axis=0, **kw):
        data = self.values
        shp = list(data.shape)
        shp.insert(axis, 1)
        dims = list(self.dims)
        dims.insert(axis, dim)
        return self._replace(data.reshape(tuple(shp)), dims=tuple(dims))

    def drop_vars(self, names, **kw):
        names = [names] if isinstance(names, str) else list(names)
        out = self._replace(self._data)
        for n in names:
            out.coords.pop(n, None)
        return out

    def reset_coords(self, names=None, drop=False):
        if not drop:
            raise sc.ShimMissing("reset_coords(drop=False)")
        out = self._replace(self._data)
        for k in list(out.coords):
            if k not in out.dims and (names is None or k in ([names] if isinstance(names, str) else names)):
                out.coords.pop(k)
        return out

    def identical(self, o):
        return self.equals(o) and self.name == o.name and self.attrs == o.attrs and list(self.coords) == list(o.coords)

    def where(self, cond, other=float('nan')):
        c = cond.data if isinstance(cond, DataArray) else cond
        return self._replace(symnp.where(c, self.values, other))

    def ravel(self):
        return self.values.ravel()

    def equals(self, o):
        return self.shape == o.shape and bool(symnp.array_equal(self.values, o.values))

    def __repr__(self):
        return "<sx.DataArray %s dims=%s coords=%s attrs=%s>" % (self._data, self.dims, list(self.coords), self.attrs)


class _DataVars(dict):
    pass


class Dataset:
    def __init__(self, data_vars=None, coords=None, attrs=None):
        self._vars = _DataVars()
        for k, v in (data_vars or {}).items():
            self[k] = v
        self.attrs = dict(attrs) if attrs is not None else {}
        self._coords = coords

    @property
    def data_vars(self):
        return self._vars

    @property
    def coords(self):
        for v in self._vars.values():
            return v.coords
        return Coords()

    @property
    def dims(self):
        for v in self._vars.values():
            return dict(zip(v.dims, v.shape))
        return {}

    def __getitem__(self, k):
        if isinstance(k, list):
            return Dataset({n: self._vars[n] for n in k}, attrs=self.attrs)
        return self._vars[k]

    def __setitem__(self, k, v):
        if not isinstance(v, DataArray):
            if isinstance(v, tuple):
                v = DataArray(v[1], dims=v[0])
            else:
                v = DataArray(v)
        if v.name != k:
            v = v._replace(v._data)
            v.name = k
        self._vars[k] = v

    def __contains__(self, k):
        return k in self._vars

    def __iter__(self):
        return iter(self._vars)

    def __len__(self):
        return len(self._vars)

    def keys(self):
        return self._vars.keys()

    def values(self):
        return self._vars.values()

    def items(self):
        return self._vars.items()

    def copy(self, deep=False):
        return Dataset({k: (v.copy(deep=True) if deep else v) for k, v in self._vars.items()}, attrs=self.attrs)

    def to_array(self, dim='variable', name=None):
        arrs = list(self._vars.values())
        data = symnp.stack([a.values for a in arrs], axis=0)
        out = DataArray(data, dims=(dim,) + arrs[0].dims, attrs=self.attrs, name=name)
        for k, c in arrs[0].coords.items():
            out.coords[k] = c
        out.coords[dim] = out._mk_coord(dim, symnp.asarray(list(self._vars.keys())) if False else _Labels(list(self._vars.keys())))
        return out

    def __repr__(self):
        return "<sx.Dataset %s>" % list(self._vars)


class _Labels:
    """string coordinate labels (kept out of SymArray)"""

    def __init__(self, labels):
        self.labels = list(labels)
        self.shape = (len(labels),)
        self.dtype = _np.dtype('O')

    def flat_values(self):
        return self.labels

    def __getitem__(self, k):
        r = self.labels[k]
        return _Labels(r) if isinstance(r, list) else r

    def copy(self):
        return _Labels(self.labels)

    def __iter__(self):
        return iter(self.labels)

    def __len__(self):
        return len(self.labels)

    def tolist(self):
        return list(self.labels)


def zeros_like(other, dtype=None):
    return other._replace(symnp.zeros_like(other.values, dtype=dtype) if dtype else symnp.zeros_like(other.values))


def ones_like(other, dtype=None):
    return other._replace(symnp.ones_like(other.values, dtype=dtype) if dtype else symnp.ones_like(other.values))


def full_like(other, fill_value, dtype=None):
    return other._replace(symnp.full_like(other.values, fill_value, dtype=dtype) if dtype else symnp.full_like(other.values, fill_value))


def where(cond, x, y):
    ref = next((o for o in (cond, x, y) if isinstance(o, DataArray)), None)
    c, a, b = (o.values if isinstance(o, DataArray) else o for o in (cond, x, y))
    r = symnp.where(c, a, b)
    return ref._replace(r) if ref is not None else r


def concat(objs, dim=None, **kw):
    objs = list(objs)
    first = objs[0]
    if isinstance(dim, str):
        if dim in first.dims:
            ax = first.dims.index(dim)
            data = symnp.concatenate([o.values for o in objs], axis=ax)
            out = DataArray(data, dims=first.dims, attrs=first.attrs, name=first.name)
            for k, c in first.coords.items():
                if k == dim:
                    labs = []
                    for o in objs:
                        labs += list(o.coords[dim].data.flat_values())
                    out.coords[dim] = out._mk_coord(dim, _Labels(labs) if any(isinstance(x, str) for x in labs) else symnp.asarray(labs))
                else:
                    out.coords[k] = c
            return out
        data = symnp.stack([o.values for o in objs], axis=0)
        out = DataArray(data, dims=(dim,) + first.dims, attrs=first.attrs, name=first.name)
        for k, c in first.coords.items():
            if c.dims:
                out.coords[k] = c
        labs = [o.coords[dim].data.flat_values()[0] if dim in o.coords else i for i, o in enumerate(objs)]
        if all(dim in o.coords for o in objs):
            out.coords[dim] = out._mk_coord(dim, _Labels(labs) if any(isinstance(x, str) for x in labs) else symnp.asarray(labs))
        return out
    # dim given as an index-like object (pd.Index) with a name
    name = getattr(dim, 'name', None) or 'concat_dim'
    labels = list(dim)
    if any(_is_dask(o.data) for o in objs):
        from . import symda
        data = symda.stack([o.data for o in objs], axis=0)     # xarray keeps dask-backed pieces lazy
        data._shape = (len(objs),) + tuple(first.shape)
    else:
        data = symnp.stack([o.values for o in objs], axis=0)
    out = DataArray(data, dims=(name,) + first.dims, attrs=first.attrs, name=first.name)
    for k, c in first.coords.items():
        out.coords[k] = c
    out.coords[name] = out._mk_coord(name, _Labels(labels))
    return out


def merge(objs, **kw):
    d = {}
    for o in objs:
        if isinstance(o, Dataset):
            d.update(o._vars)
        else:
            d[o.name] = o
    return Dataset(d)
