"""Bit-exact IEEE scalars (z3 FloatingPoint) for the few lemmas where rounding *is* the property.

FPV follows Numba's promotion rules for the operations the spectral kernels use: float32 op float32 -> float32,
anything with a float64 operand or a Python float literal -> float64; stores into float32 arrays round to nearest even."""
import math

import z3

from . import core as sc

RNE = z3.RNE()
F32 = z3.Float32()
F64 = z3.Float64()


class FPV:
    __slots__ = ('t',)

    def __init__(self, t):
        self.t = t

    @staticmethod
    def fresh(name, bits=32):
        return FPV(z3.FP(name, F32 if bits == 32 else F64))

    @property
    def bits(self):
        return 32 if self.t.sort() == F32 else 64

    @staticmethod
    def lift(x, like=None):
        if isinstance(x, FPV):
            return x
        if isinstance(x, (int, float)):
            return FPV(z3.FPVal(float(x), F64))
        raise TypeError(type(x))

    @staticmethod
    def _promote(a, b):
        a = FPV.lift(a)
        b = FPV.lift(b)
        if a.bits == b.bits:
            return a, b
        if a.bits == 32:
            a = FPV(z3.fpFPToFP(RNE, a.t, F64))
        if b.bits == 32:
            b = FPV(z3.fpFPToFP(RNE, b.t, F64))
        return a, b

    def to32(self):
        return self if self.bits == 32 else FPV(z3.fpFPToFP(RNE, self.t, F32))

    def _bin(self, o, f, rev=False):
        if not isinstance(o, (FPV, int, float)):
            return NotImplemented
        a, b = FPV._promote(self, o)
        if rev:
            a, b = b, a
        return FPV(f(RNE, a.t, b.t))

    def __add__(self, o): return self._bin(o, z3.fpAdd)
    def __radd__(self, o): return self._bin(o, z3.fpAdd, True)
    def __sub__(self, o): return self._bin(o, z3.fpSub)
    def __rsub__(self, o): return self._bin(o, z3.fpSub, True)
    def __mul__(self, o): return self._bin(o, z3.fpMul)
    def __rmul__(self, o): return self._bin(o, z3.fpMul, True)
    def __truediv__(self, o): return self._bin(o, z3.fpDiv)
    def __rtruediv__(self, o): return self._bin(o, z3.fpDiv, True)
    def __neg__(self): return FPV(z3.fpNeg(self.t))

    def _cmp(self, o, f):
        if not isinstance(o, (FPV, int, float)):
            return NotImplemented
        a, b = FPV._promote(self, o)
        return sc.mkbool(f(a.t, b.t))

    def __eq__(self, o):
        r = self._cmp(o, z3.fpEQ)
        return False if r is NotImplemented else r

    def __ne__(self, o):
        r = self._cmp(o, z3.fpEQ)
        return True if r is NotImplemented else sc.mkbool(sc.bnot(sc.bt(r)))

    def __lt__(self, o): return self._cmp(o, z3.fpLT)
    def __le__(self, o): return self._cmp(o, z3.fpLEQ)
    def __gt__(self, o): return self._cmp(o, z3.fpGT)
    def __ge__(self, o): return self._cmp(o, z3.fpGEQ)
    def __hash__(self): return 0

    # predicates as z3 Bool
    def isnan(self): return z3.fpIsNaN(self.t)
    def isinf(self): return z3.fpIsInf(self.t)
    def isfinite(self): return z3.Not(z3.Or(z3.fpIsNaN(self.t), z3.fpIsInf(self.t)))

    def item(self):
        return self

    def __repr__(self):
        return "FPV%d(%s)" % (self.bits, self.t)


def ev(model, x):
    """model value of an FPV as a python float"""
    v = model.eval(x.t, model_completion=True)
    if z3.is_true(z3.simplify(z3.fpIsNaN(v))):
        return math.nan
    if z3.is_true(z3.simplify(z3.fpIsInf(v))):
        return math.inf if z3.is_true(z3.simplify(z3.fpIsPositive(v))) else -math.inf
    r = z3.simplify(z3.fpToReal(v))
    return float(r.as_fraction())
