"""harness side of the replay protocol: shim objects <-> JSON wire format, and the worker client."""
import json
import math
import os
import subprocess
import sys

import numpy as _np

from . import symnp, symxr, symda, minipd
from . import core as sc
from .symnp import SymArray


class RemoteError(Exception):
    def __init__(self, exc, msg):
        Exception.__init__(self, "%s: %s" % (exc, msg))
        self.exc = exc
        self.msg = msg


def _plain(v):
    if isinstance(v, _np.generic):
        v = v.item()
    if sc.is_sym(v):
        c = sc.as_const(v)
        if c is None:
            raise ValueError("symbolic value on the wire")
        return c
    return v


def to_wire(o, layout=None):
    if o is None or isinstance(o, (bool, int, float, str)):
        return o
    if isinstance(o, _np.generic):
        return {'__t': 'scalar', 'v': o.item(), 'dtype': str(o.dtype)}
    if sc.is_sym(o):
        return _plain(o)
    if isinstance(o, symxr._Labels):
        return {'__t': 'labels', 'v': [_plain(x) for x in o.labels]}
    if isinstance(o, SymArray):
        w = {'__t': 'nd', 'data': [_plain(v) for v in o.flat_values()], 'dtype': str(o.dtype), 'shape': list(o.shape),
             'writeable': bool(o._wr)}
        lay = getattr(o, '_sx_layout', None) or layout
        if lay:
            w['layout'] = lay
        return w
    if isinstance(o, _np.ndarray):
        return to_wire(symnp.asarray(o))
    if isinstance(o, symda.Array):
        return {'__t': 'dask', 'whole': to_wire(o.compute()), 'chunks': [list(c) for c in o.chunks]}
    if isinstance(o, symxr.DataArray):
        coords = {}
        for k, c in o.coords.items():
            coords[k] = {'dims': list(c.dims), 'data': to_wire(c.data)}
        return {'__t': 'da', 'data': to_wire(o.data), 'dims': list(o.dims), 'coords': coords, 'attrs': to_wire(dict(o.attrs)),
                'name': o.name}
    if isinstance(o, symxr.Dataset):
        return {'__t': 'ds', 'vars': {k: to_wire(v) for k, v in o.data_vars.items()}, 'attrs': to_wire(dict(o.attrs))}
    if isinstance(o, tuple):
        return {'__t': 'tuple', 'v': [to_wire(v) for v in o]}
    if isinstance(o, list):
        return [to_wire(v) for v in o]
    if isinstance(o, dict):
        if '__sx_lib_func__' in o:
            mod, name = o['__sx_lib_func__'].rsplit('.', 1)
            return {'__t': 'libfunc', 'module': 'xrspatial.' + mod, 'name': name}
        if all(isinstance(k, str) for k in o):
            return {k: to_wire(v) for k, v in o.items()}
        return {'__t': 'dict', 'items': [[to_wire(k), to_wire(v)] for k, v in o.items()]}
    if callable(o):
        return {'__t': 'func', 'name': o.__name__}
    raise TypeError("cannot put %r on the wire" % type(o))


def from_wire(w):
    if isinstance(w, list):
        return [from_wire(v) for v in w]
    if isinstance(w, float):
        return sc.F(w)
    if not isinstance(w, dict):
        return w
    t = w.get('__t')
    if t is None:
        return {k: from_wire(v) for k, v in w.items()}
    if t == 'tuple':
        return tuple(from_wire(v) for v in w['v'])
    if t == 'dict':
        return {_hashable(from_wire(k)): from_wire(v) for k, v in w['items']}
    if t == 'nd':
        dt = _np.dtype(w['dtype'])
        vals = w['data']
        if dt.kind == 'f':
            vals = [sc.F(v) for v in vals]
        a = SymArray.from_list(vals, tuple(w['shape']), dt)
        if w.get('writeable') is False:
            a._wr = False
        return a
    if t == 'dask':
        whole = from_wire(w['whole'])
        ch = w.get('chunks')
        return symda.Array(whole, tuple(tuple(c) for c in ch) if ch else None)
    if t == 'da':
        data = from_wire(w['data'])
        out = symxr.DataArray(data, dims=tuple(w['dims']), attrs=from_wire(w['attrs']), name=w.get('name'))
        for k, c in w['coords'].items():
            cd = from_wire(c['data'])
            out.coords[k] = out._mk_coord(k, cd)
            if not c['dims']:
                out.coords[k].dims = ()
        return out
    if t == 'ds':
        return symxr.Dataset({k: from_wire(v) for k, v in w['vars'].items()}, attrs=from_wire(w.get('attrs', {})))
    if t == 'df':
        return minipd.DataFrame({_hashable(c): v for c, v in w['cols']})
    if t == 'scalar':
        return sc.F(w['v']) if isinstance(w['v'], float) else w['v']
    if t == 'labels':
        return symxr._Labels(w['v'])
    if t in ('func', 'repr'):
        return w
    raise ValueError("unknown wire type %r" % t)


def _hashable(k):
    if isinstance(k, list):
        return tuple(_hashable(x) for x in k)
    return k


class Worker:
    """persistent /venv/bin/python process running sx/worker.py"""

    def __init__(self, repo=None):
        env = dict(os.environ)
        env['SX_REPO'] = repo or os.environ.get('SX_REPO', '/repo')
        env.pop('PYTHONPATH', None)
        env['NUMBA_DISABLE_PERFORMANCE_WARNINGS'] = '1'
        here = os.path.dirname(os.path.abspath(__file__))
        self.p = subprocess.Popen(['/venv/bin/python', '-W', 'ignore', os.path.join(here, 'worker.py')],
                                  stdin=subprocess.PIPE, stdout=subprocess.PIPE, stderr=subprocess.DEVNULL,
                                  text=True, env=env, cwd='/')
        self.ncalls = 0

    def request(self, req):
        import select
        self.p.stdin.write(json.dumps(req) + "\n")
        self.p.stdin.flush()
        # a change can make the real code loop; a call that does not return is reported like an exception (the limit covers a cold Numba compile many times over)
        limit = float(os.environ.get('VERIF_CALL_TIMEOUT', '300'))
        ready, _, _ = select.select([self.p.stdout], [], [], limit)
        if not ready:
            self.p.kill()
            raise RemoteError('Timeout', 'the real library did not return within %.0f s' % limit)
        line = self.p.stdout.readline()
        if not line:
            raise RuntimeError("replay worker died")
        self.ncalls += 1
        return json.loads(line)

    def call(self, module, func, args, kwargs, compute=False):
        resp = self.request({'op': 'call', 'module': module, 'func': func, 'args': [to_wire(a) for a in args],
                             'kwargs': {k: to_wire(v) for k, v in kwargs.items()}, 'compute': compute})
        if not resp['ok']:
            raise RemoteError(resp['exc'], resp.get('msg', ''))
        self.last_shares = resp.get('shares', [])
        return from_wire(resp['ret']), [from_wire(a) for a in resp['args_after']]

    def joint(self, calls):
        """calls: [(module, func, args, kwargs)] -> results evaluated in one dask graph"""
        resp = self.request({'op': 'joint', 'calls': [{'module': m, 'func': f, 'args': [to_wire(a) for a in args],
                                                        'kwargs': {k: to_wire(v) for k, v in kw.items()}} for (m, f, args, kw) in calls]})
        if not resp['ok']:
            raise RemoteError(resp['exc'], resp.get('msg', ''))
        return [from_wire(r) for r in resp['ret']]

    def script(self, name, *args):
        resp = self.request({'op': 'script', 'name': name, 'args': list(args)})
        if not resp['ok']:
            raise RemoteError(resp['exc'], resp.get('msg', ''))
        return resp['ret']

    def close(self):
        try:
            self.p.stdin.close()
            self.p.wait(timeout=10)
        except Exception:
            self.p.kill()


_worker = None


def worker():
    global _worker
    if _worker is None or _worker.p.poll() is not None:
        _worker = Worker()
    return _worker


def close_worker():
    global _worker
    if _worker is not None:
        _worker.close()
        _worker = None
