"""`math` shim: real libm on concrete arguments, Ackermannised axiomatised functions on symbolic ones.

Every function application with a symbolic argument becomes a fresh z3 Real
plus (i) congruence with earlier applications, (ii) instantiated axioms (range,
sign, monotonicity, special points, odd/even).  These axioms are the stated
contract of libm used by the claims (listed in the evidence under `axioms`).
"""
import math as _m

import z3

from . import core as sc
from .core import SF, SI, SB, as_const, band, bor, bnot, bz3, bsimp, uf_app

pi = _m.pi
e = _m.e
inf = _m.inf
nan = _m.nan
tau = _m.tau

PYTHAG = [False]  # add sin^2 + cos^2 == 1 (makes queries nonlinear)

from fractions import Fraction as _Fr
# rational enclosure of pi (50 digits): interval end points in the axioms use the side that keeps each axiom valid
_PI_LO_Q = _Fr('3.14159265358979323846264338327950288419716939937510')
_PI_HI_Q = _PI_LO_Q + _Fr(1, 10 ** 49)
_PI_LO = z3.RealVal(_PI_LO_Q)
_PI_HI = z3.RealVal(_PI_HI_Q)
_HALF_PI_LO = z3.RealVal(_PI_LO_Q / 2)
_HALF_PI_HI = z3.RealVal(_PI_HI_Q / 2)
_HALF_PI = sc.to_real(_m.pi / 2)     # the float constants the library itself computes with
_PI = sc.to_real(_m.pi)


def _sym(x):
    return isinstance(x, (SF, SI, SB))


def _c(x):
    if hasattr(x, 'dtype') and hasattr(x, 'item'):
        return x.item()
    return x


def sqrt(x):
    x = _c(x)
    if _sym(x):
        return sc.sym_sqrt(x)
    if x < 0:
        raise ValueError("math domain error")
    return _m.sqrt(x)


def fabs(x):
    x = _c(x)
    if _sym(x):
        return abs(SF.lift(x))
    return _m.fabs(x)


def isnan(x):
    x = _c(x)
    if isinstance(x, SF):
        return sc.mkbool(x.nan)
    if isinstance(x, (SI, SB)):
        return False
    return _m.isnan(x)


def isinf(x):
    x = _c(x)
    if isinstance(x, SF):
        return sc.mkbool(x.isinf())
    if isinstance(x, (SI, SB)):
        return False
    return _m.isinf(x)


def isfinite(x):
    x = _c(x)
    if isinstance(x, SF):
        return sc.mkbool(x.finite())
    if isinstance(x, (SI, SB)):
        return True
    return _m.isfinite(x)


def floor(x):
    x = _c(x)
    if _sym(x):
        f = sc.sym_floor(x)
        return sc.sym_trunc_int(f) if isinstance(f, SF) else int(f)
    return _m.floor(x)


def ceil(x):
    x = _c(x)
    if _sym(x):
        f = sc.sym_ceil(x)
        return sc.sym_trunc_int(f) if isinstance(f, SF) else int(f)
    return _m.ceil(x)


def radians(x):
    x = _c(x)
    if _sym(x):
        return SF.lift(x) * (_m.pi / 180.0)
    return _m.radians(x)


def degrees(x):
    x = _c(x)
    if _sym(x):
        return SF.lift(x) * (180.0 / _m.pi)
    return _m.degrees(x)


def _odd_even(name, x, v, odd):
    """relate to earlier applications at the negated argument"""
    if not sc.AX['odd_even'] or sc.CONGRUENCE[0] != 'full':
        return
    for (a2, v2) in sc.EX.apps[name][:-1]:
        sc.EX.add_axiom(z3.Implies(x == -a2[0], v == (-v2 if odd else v2)), name + (': odd' if odd else ': even'))


def atan(x):
    x = _c(x)
    if not _sym(x):
        return _m.atan(x)
    x = SF.lift(x)
    c = as_const(x)
    if c is not None:
        return _m.atan(c)
    r, new = uf_app('atan', [x.v], mono=1)
    if new:
        sc.EX.add_axiom(z3.And(r > -_HALF_PI_HI, r < _HALF_PI_HI, (r == 0) == (x.v == 0), (r > 0) == (x.v > 0)),
                        'atan: range (-pi/2,pi/2), sign, zero, strictly increasing')
        _odd_even('atan', x.v, r, True)
    if not x.simple():
        r = z3.If(bz3(x.pinf), _HALF_PI, z3.If(bz3(x.ninf), -_HALF_PI, r))
    return SF(x.nan, r)


def atan2(y, x):
    y = _c(y)
    x = _c(x)
    if not _sym(y) and not _sym(x):
        return _m.atan2(y, x)
    y = SF.lift(y)
    x = SF.lift(x)
    if not (y.simple() and x.simple()):
        raise sc.ShimMissing("atan2 of possibly-infinite arguments")
    r, new = uf_app('atan2', [y.v, x.v])
    if new:
        sc.EX.add_axiom(z3.And(
            r >= -_PI, r <= _PI,
            z3.Implies(y.v > 0, z3.And(r > 0, r < _PI)), z3.Implies(y.v < 0, z3.And(r < 0, r > -_PI)),
            z3.Implies(z3.And(y.v == 0, x.v >= 0), r == 0), z3.Implies(z3.And(y.v == 0, x.v < 0), r == _PI),
            z3.Implies(x.v > 0, z3.And(r > -_HALF_PI, r < _HALF_PI)),
            z3.Implies(x.v < 0, z3.Or(r > _HALF_PI, r < -_HALF_PI)),
            z3.Implies(z3.And(x.v == 0, y.v > 0), r == _HALF_PI), z3.Implies(z3.And(x.v == 0, y.v < 0), r == -_HALF_PI)),
            'atan2: quadrant/axis values and range [-pi,pi]')
        # scale invariance and reflection against earlier applications
        for (a2, v2) in sc.EX.apps['atan2'][:-1]:
            y2, x2 = a2
            if sc.AX['atan2_scale']:
                sc.EX.add_axiom(z3.Implies(z3.And(y.v * x2 == x.v * y2, y.v * y2 >= 0, x.v * x2 >= 0,
                                              z3.Or(y.v != 0, x.v != 0), z3.Or(y2 != 0, x2 != 0),
                                              z3.Or(y.v * y2 > 0, x.v * x2 > 0)), r == v2),
                                'atan2: equal for positively proportional arguments')
            if not sc.AX['atan2_turn']:
                continue
            # quarter turn: rotating the vector (x, y) by +90 degrees gives (-y, x) and adds pi/2 (wrapped)
            def wrap(t):
                return z3.If(t > _PI, t - 2 * _PI, t)
            sc.EX.add_axiom(z3.Implies(z3.And(y.v == x2, x.v == -y2, z3.Or(y2 != 0, x2 != 0)), r == wrap(v2 + _HALF_PI)),
                            'atan2: quarter-turn identity atan2(x,-y) = atan2(y,x)+pi/2 (mod 2pi)')
            sc.EX.add_axiom(z3.Implies(z3.And(y2 == x.v, x2 == -y.v, z3.Or(y.v != 0, x.v != 0)), v2 == wrap(r + _HALF_PI)),
                            'atan2: quarter-turn identity atan2(x,-y) = atan2(y,x)+pi/2 (mod 2pi)')
    return SF(bor(y.nan, x.nan), r)


def _sincos(x):
    """paired application so that sin^2+cos^2=1 can be stated"""
    s, new_s = uf_app('sin', [x.v])
    c, new_c = uf_app('cos', [x.v])
    if new_s or new_c:
        ax = [s >= -1, s <= 1, c >= -1, c <= 1, z3.Implies(x.v == 0, z3.And(s == 0, c == 1)),
              z3.Implies(z3.And(x.v > 0, x.v < _PI_LO), s > 0), z3.Implies(z3.And(x.v < 0, x.v > -_PI_LO), s < 0),
              z3.Implies(z3.And(x.v > -_HALF_PI_LO, x.v < _HALF_PI_LO), c > 0)]
        if PYTHAG[0] or sc.AX['pythag']:
            ax.append(s * s + c * c == 1)
        sc.EX.add_axiom(z3.And(*ax), 'sin/cos: range [-1,1], sin^2+cos^2=1, signs on (0,pi)/(-pi/2,pi/2), values at 0')
        if new_s:
            _odd_even('sin', x.v, s, True)
        if new_c:
            _odd_even('cos', x.v, c, False)
    return s, c


def sin(x):
    x = _c(x)
    if not _sym(x):
        return _m.sin(x)
    x = SF.lift(x)
    cst = as_const(x)
    if cst is not None:
        return _m.sin(cst) if _m.isfinite(cst) else _m.nan
    s, _ = _sincos(x)
    return SF(bsimp(bor(x.nan, x.isinf())), s)


def cos(x):
    x = _c(x)
    if not _sym(x):
        return _m.cos(x)
    x = SF.lift(x)
    cst = as_const(x)
    if cst is not None:
        return _m.cos(cst) if _m.isfinite(cst) else _m.nan
    _, c = _sincos(x)
    return SF(bsimp(bor(x.nan, x.isinf())), c)


def tan(x):
    x = _c(x)
    if not _sym(x):
        return _m.tan(x)
    x = SF.lift(x)
    r, new = uf_app('tan', [x.v])
    if new:
        sc.EX.add_axiom(z3.Implies(z3.And(x.v > -_HALF_PI_LO, x.v < _HALF_PI_LO), z3.And((r == 0) == (x.v == 0), (r > 0) == (x.v > 0))), 'tan: sign on (-pi/2,pi/2)')
    return SF(bsimp(bor(x.nan, x.isinf())), r)


def asin(x):
    x = _c(x)
    if not _sym(x):
        return _m.asin(x)
    x = SF.lift(x)
    r, new = uf_app('asin', [x.v], mono=0)
    if new:
        sc.EX.add_axiom(z3.Implies(z3.And(x.v >= -1, x.v <= 1), z3.And(r >= -_HALF_PI_HI, r <= _HALF_PI_HI, (r == 0) == (x.v == 0), (r > 0) == (x.v > 0))),
                        'asin: range [-pi/2,pi/2], sign, end points')
        for (a2, v2) in sc.EX.apps['asin'][:-1]:
            sc.EX.add_axiom(z3.Implies(z3.And(x.v >= -1, x.v <= 1, a2[0] >= -1, a2[0] <= 1),
                                       z3.And(z3.Implies(x.v < a2[0], r < v2), z3.Implies(a2[0] < x.v, v2 < r))), 'asin: strictly increasing')
        _odd_even('asin', x.v, r, True)
    bad = band(x.finite(), z3.Or(x.v < -1, x.v > 1))
    return SF(bsimp(bor(x.nan, x.isinf(), bad)), r)


def _cexp(x):
    try:
        return _m.exp(x)
    except OverflowError:
        return _m.inf


def _clog(x):
    if x != x:
        return _m.nan
    if x < 0:
        return _m.nan
    if x == 0:
        return -_m.inf
    return _m.log(x)


def exp(x):
    x = _c(x)
    if not _sym(x):
        return _cexp(x)
    x = SF.lift(x)
    r, new = uf_app('exp', [x.v], mono=1)
    if new:
        sc.EX.add_axiom(z3.And(r > 0, (r == 1) == (x.v == 0), (r > 1) == (x.v > 0)), 'exp: positive, exp(0)=1, strictly increasing')
    if not x.simple():
        r = z3.If(bz3(x.ninf), z3.RealVal(0), r)
    return SF(x.nan, r, x.pinf, False)


def log(x):
    x = _c(x)
    if not _sym(x):
        return _clog(x)
    x = SF.lift(x)
    r, new = uf_app('log', [x.v], mono=0)
    if new:
        sc.EX.add_axiom(z3.Implies(x.v > 0, z3.And((r == 0) == (x.v == 1), (r > 0) == (x.v > 1))), 'log: log(1)=0, sign')
        for (a2, v2) in sc.EX.apps['log'][:-1]:
            sc.EX.add_axiom(z3.Implies(z3.And(x.v > 0, a2[0] > 0), z3.And(z3.Implies(x.v < a2[0], r < v2), z3.Implies(a2[0] < x.v, v2 < r))), 'log: strictly increasing')
    neg = band(x.finite(), x.v < 0)
    zero = band(x.finite(), x.v == 0)
    return SF(bsimp(bor(x.nan, x.ninf, neg)), r, x.pinf, bsimp(zero))


def pow(a, b):
    return a ** b


def hypot(a, b):
    return sqrt(a * a + b * b)


def copysign(a, b):
    if _sym(a) or _sym(b):
        raise sc.ShimMissing("copysign symbolic")
    return _m.copysign(a, b)


def __getattr__(name):
    return getattr(_m, name)
