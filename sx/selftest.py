"""setup-time self test: tool chain present, worker reachable, shim basics agree with real numpy."""
import sys


def main():
    import z3
    from sx import wire, symnp
    w = wire.worker()
    r = w.request({'op': 'ping'})
    assert r['ok'], r
    print("selftest: z3", z3.get_version_string(), "| worker imports", r['file'])
    bad = w.script('shim_selftest')
    wire.close_worker()
    if bad:
        print("selftest: shim mismatches:", bad[:5])
        return 3
    print("selftest: ok")
    return 0
