"""setup-time / on-demand self test: the numpy and dask shims against the real libraries on concrete inputs."""
import itertools
import math
import sys

A = {'data': [[1.5, float('nan'), -2.0, 0.0], [4.0, 4.0, float('inf'), -0.5], [7.25, 3.0, 3.0, float('nan')]], 'dtype': 'float64'}
B = {'data': [[2.0, 1.0, 0.0, -1.0], [0.5, 4.0, 2.0, 8.0], [1.0, 3.0, -3.0, 2.0]], 'dtype': 'float64'}
I = {'data': [[3, -1, 250, 7], [0, 0, 9, 100], [5, 5, 5, 2]], 'dtype': 'int32'}
U = {'data': [[3, 1, 250, 7], [0, 0, 9, 100], [5, 5, 5, 2]], 'dtype': 'uint8'}
V = {'data': [3.0, 1.0, float('nan'), 2.0, 2.0, -1.0], 'dtype': 'float64'}
J8 = {'data': [[-100, 3], [100, 7]], 'dtype': 'int8'}
J16 = {'data': [[-30000, 3], [30000, 7]], 'dtype': 'int16'}
F32 = {'data': [[0.1, 0.2], [0.7, 16777217.0]], 'dtype': 'float32'}

NUMPY_CASES = [
    ('a + b', {'a': A, 'b': B}), ('a - b * 2', {'a': A, 'b': B}), ('a / b', {'a': A, 'b': B}), ('b / a', {'a': A, 'b': B}), ('a ** 2', {'a': A}),
    ('np.isnan(a)', {'a': A}), ('np.isfinite(a)', {'a': A}), ('np.isinf(a)', {'a': A}), ('a[np.isfinite(a)]', {'a': A}), ('a[a > 1]', {'a': A}),
    ('np.nansum(a)', {'a': B}), ('np.nanmean(a, axis=0)', {'a': A}), ('np.nanmax(a)', {'a': A}), ('np.nanmin(a, axis=1)', {'a': A}),
    ('np.nanstd(b)', {'b': B}), ('np.nanvar(b)', {'b': B}), ('b.mean()', {'b': B}), ('b.std()', {'b': B}), ('b.var()', {'b': B}), ('b.max()', {'b': B}), ('a.max()', {'a': A}),
    ('b.sum(axis=0)', {'b': B}), ('b.sum(axis=1)', {'b': B}), ('np.ptp(b)', {'b': B}), ('np.median(b)', {'b': B}), ('np.percentile(b, [25, 50, 100])', {'b': B}),
    ('np.argsort(v)', {'v': V}), ('np.sort(v)', {'v': V}), ('np.unique(v)', {'v': V}), ('np.unique(i)', {'i': I}), ('np.lexsort((v, np.array([1, 0, 1, 0, 1, 0])))', {'v': V}),
    ('np.where(a > 0, a, -1)', {'a': A}), ('np.where(np.isnan(v))[0]', {'v': V}), ('np.argwhere(b > 2)', {'b': B}),
    ('i + i', {'i': U}), ('i * 2', {'i': U}), ('i - 10', {'i': U}), ('i.astype("f4") / 3', {'i': I}), ('i.astype(float).dtype.kind', {'i': I}), ('(i > 4) & (i < 200)', {'i': I}),
    ('a.astype(np.uint8)', {'a': B}), ('np.array([float("nan"), float("inf"), -3.7, 300.2]).astype(np.uint8)', {}), ('np.array([float("nan"), 2.9, -2.9]).astype(np.int32)', {}),
    ('f.astype(np.float64)', {'f': F32}), ('np.float32(0.1) == 0.1', {}), ('np.asarray([0.1, 0.2], dtype=np.float32).astype(np.float64)', {}),
    ('a.ravel()', {'a': A}), ('a.T.ravel()', {'a': B}), ('a.T.ravel(order="K")', {'a': B}), ('a.reshape(4, 3)', {'a': B}), ('a.flatten()[::2]', {'a': B}), ('a[1:, ::2]', {'a': B}),
    ('np.shares_memory(b, b[1:])', {'b': B}), ('np.shares_memory(b, b.ravel())', {'b': B}), ('np.shares_memory(b, b.flatten())', {'b': B}), ('np.shares_memory(b, b.astype(float))', {'b': B}),
    ('np.shares_memory(b, b.astype(float, copy=False))', {'b': B}), ('np.shares_memory(b, b.T.ravel())', {'b': B}), ('np.shares_memory(i, i.astype(float, copy=False))', {'i': I}),
    ('np.tile(v, 2)', {'v': V}), ('np.repeat(v, 2)', {'v': V}), ('np.hstack((b, b))', {'b': B}), ('np.stack([b, b], axis=-1).shape', {'b': B}), ('np.concatenate([v, v])', {'v': V}),
    ('np.append(v, v)', {'v': V}), ('np.pad(b, ((1, 1), (0, 2)), mode="constant", constant_values=0)', {'b': B}), ('np.gradient(b)[0]', {'b': B}), ('np.gradient(b)[1]', {'b': B}),
    ('np.meshgrid(np.arange(3), np.arange(2))[0]', {}), ('np.linspace(0, 1, 5, endpoint=False)', {}), ('np.arange(0.5, 2.6, 0.5)', {}), ('np.full((2, 2), np.nan)', {}),
    ('np.zeros_like(i).dtype.kind', {'i': I}), ('np.zeros_like(i, dtype=np.float32).dtype.itemsize', {'i': I}), ('np.rot90(b)', {'b': B}), ('np.any(b > 7)', {'b': B}), ('np.all(b > -5, axis=0)', {'b': B}),
    ('np.abs(a)', {'a': A}), ('np.sqrt(np.abs(b))', {'b': B}), ('np.arctan2(b, a)', {'a': B, 'b': B}), ('np.radians(b)', {'b': B}), ('np.mod(i, 4)', {'i': I}), ('np.maximum(a, b)', {'a': A, 'b': B}),
    ('np.isclose(b, b + 1e-9)', {'b': B}), ('np.ma.count(b)', {'b': B}), ('np.nansum(np.array([[np.nan, np.nan], [1.0, np.nan]]), axis=0)', {}),
    ('np.all(np.isnan(np.array([[np.nan, 1.0], [np.nan, np.nan]])), axis=0)', {}), ('np.sum(v == -np.inf)', {'v': V}),
    # memory order of *_like / ravel for Fortran-ordered prototypes
    ('np.shares_memory(np.zeros_like(np.asfortranarray(b)), np.zeros_like(np.asfortranarray(b)).ravel())', {'b': B}), ('np.shares_memory(np.zeros_like(b), np.zeros_like(b).ravel())', {'b': B}),
    ('np.zeros_like(np.asfortranarray(b)).ravel(order="K").shape', {'b': B}), ('np.asfortranarray(b).ravel()', {'b': B}), ('np.asfortranarray(b).ravel(order="K")', {'b': B}),
    ('np.shares_memory(np.asfortranarray(b), np.asfortranarray(b).T.ravel())', {'b': B}), ('np.empty_like(np.asfortranarray(b).T).ravel().shape', {'b': B}),
]


# functions of sx/symnp_extra.py: evaluated by the shim on *constant-symbolic* arrays (so that the symbolic implementations run, not the NumPy fallback)
NUMPY_CASES_EXTRA = [
    ('np.sign(a)', {'a': A}), ('np.trunc(a)', {'a': A}), ('np.rint(np.array([0.5, 1.5, 2.5, -0.5, -1.5, 2.4, 2.6, float("nan")]))', {}), ('np.round(b * 1.37, 1)', {'b': B}), ('np.round(a)', {'a': A}),
    ('np.clip(a, -1.0, 3.5)', {'a': A}), ('np.power(b, 3)', {'b': B}), ('np.power(np.abs(b), 0.5) ** 2', {'b': B}), ('np.hypot(a, b) ** 2', {'a': B, 'b': B}), ('np.isposinf(a)', {'a': A}), ('np.isneginf(-a)', {'a': A}),
    ('np.nan_to_num(a)', {'a': A}), ('np.nan_to_num(a, nan=-1.0, posinf=9.0)', {'a': A}), ('np.floor_divide(i, 4)', {'i': I}), ('np.isin(b, [2.0, 4.0, 8.0])', {'b': B}),
    ('np.select([b > 3, b < 1], [b, -b], 0.5)', {'b': B}), ('np.searchsorted(np.array([0.0, 1.0, 2.0, 4.0]), b)', {'b': B}), ('np.searchsorted(np.array([0.0, 1.0, 2.0, 4.0]), b, side="right")', {'b': B}),
    ('np.searchsorted(np.array([0.0, 1.0, 2.0]), v)', {'v': V}), ('np.digitize(b, np.array([0.0, 1.0, 2.0, 4.0]))', {'b': B}), ('np.digitize(b, np.array([0.0, 1.0, 2.0, 4.0]), right=True)', {'b': B}),
    ('np.digitize(b, np.array([4.0, 2.0, 1.0, 0.0]))', {'b': B}), ('np.digitize(v, np.array([0.0, 2.0]))', {'v': V}), ('np.swapaxes(b, 0, 1)', {'b': B}), ('np.roll(b, 1, axis=1)', {'b': B}),
    ('np.roll(b, -2, axis=0)', {'b': B}), ('np.roll(b, 5)', {'b': B}), ('np.tile(b, (2, 1))', {'b': B}), ('np.tile(b, 2)', {'b': B}), ('np.dstack([b, b]).shape', {'b': B}), ('np.atleast_2d(v).shape', {'v': V}),
    ('np.take(b, [0, 2], axis=1)', {'b': B}), ('np.take(b, [1, 5, 7])', {'b': B}), ('np.cumsum(b)', {'b': B}), ('np.cumsum(b, axis=1)', {'b': B}), ('np.cumsum(i, axis=0)', {'i': I}), ('np.diff(b, axis=1)', {'b': B}),
    ('np.diff(b, axis=0)', {'b': B}), ('np.diff(v)', {'v': V}), ('np.sort(b, axis=1)', {'b': B}), ('np.sort(b, axis=0)', {'b': B}), ('np.flatnonzero(i)', {'i': I}), ('np.dot(v2, v2)', {'v2': {'data': [1.0, 2.0, -3.0], 'dtype': 'float64'}}),
    ('np.dot(b, b.T)', {'b': B}), ('np.outer(v2, v2)', {'v2': {'data': [1.0, 2.0, -3.0], 'dtype': 'float64'}}), ('np.average(b, weights=np.ones((3, 4)))', {'b': B}), ('np.quantile(b, 0.25)', {'b': B}),
    ('np.nanpercentile(v, [25, 50])', {'v': V}), ('np.nanmedian(v)', {'v': V}), ('np.nanargmax(v)', {'v': V}), ('np.nanargmin(v)', {'v': V}), ('np.apply_along_axis(lambda r: r.sum(), 1, b)', {'b': B}),
    # typed narrow-integer scalars from min / max reductions: arithmetic wraps in the NumPy result dtype
    ('np.max(j) - np.min(j)', {'j': J8}), ('(np.max(j) - np.min(j)) / 2', {'j': J8}), ('np.max(j) + 100', {'j': J8}), ('np.min(j) * 2', {'j': J8}), ('j.max() - j.min()', {'j': J16}),
    ('np.nanmax(j) - np.nanmin(j)', {'j': J8}), ('np.max(j) - np.min(k)', {'j': J8, 'k': J16}), ('np.max(j) - 1000', {'j': J8}), ('np.max(j) * 1.5', {'j': J8}), ('float(np.max(j)) - float(np.min(j))', {'j': J8}),
    ('np.max(j).item() - np.min(j).item()', {'j': J8}),
    ('np.pad(b, 1, mode="edge")', {'b': B}), ('np.pad(b, ((0, 2), (1, 0)), mode="edge")', {'b': B}),
]


def _enc(v):
    from sx import symnp, core as sc
    import numpy as np
    if isinstance(v, symnp.SymArray):
        return {'shape': list(v.shape), 'kind': v.dtype.kind, 'vals': [_enc(x) for x in v.flat_values()]}
    if isinstance(v, np.ndarray):
        return {'shape': list(v.shape), 'kind': v.dtype.kind, 'vals': [_enc(x) for x in v.ravel().tolist()]}
    if isinstance(v, np.generic):
        v = v.item()
    if sc.is_sym(v):
        v = sc.as_const(v)
    if isinstance(v, float):
        if v != v:
            return 'nan'
        if v in (math.inf, -math.inf):
            return 'inf' if v > 0 else '-inf'
        return v
    if isinstance(v, (bool, int, str)) or v is None:
        return v
    if isinstance(v, (tuple, list)):
        return [_enc(x) for x in v]
    return repr(v)


def _close(a, b):
    if isinstance(a, dict) and isinstance(b, dict):
        if 'exc' in a or 'exc' in b:
            return a.get('exc') == b.get('exc')
        return a['shape'] == b['shape'] and a['kind'] == b['kind'] and len(a['vals']) == len(b['vals']) and all(_close(x, y) for x, y in zip(a['vals'], b['vals']))
    if isinstance(a, list) and isinstance(b, list):
        return len(a) == len(b) and all(_close(x, y) for x, y in zip(a, b))
    if isinstance(a, (int, float)) and isinstance(b, (int, float)) and not isinstance(a, bool) and not isinstance(b, bool):
        return abs(a - b) <= 1e-9 * (1 + abs(b))
    return a == b


def shim_numpy(cases, lift=False):
    """lift=True: every finite input value is a fresh solver variable pinned to its constant by an assumption, so the *symbolic* code paths run
    (comparisons fork and are decided by the solver); outputs are evaluated under the model of the single feasible path"""
    from sx import symnp, core as sc
    import z3
    out = []
    for expr, inputs in cases:
        if not lift:
            sc.EX = sc.Explorer()
            env = {'np': symnp, 'nan': math.nan, 'inf': math.inf, 'float': float}
            for k, spec in inputs.items():
                env[k] = symnp.asarray(spec['data'], spec['dtype'])
            try:
                out.append(_enc(eval(expr, env)))
            except Exception as e:
                out.append({'exc': type(e).__name__})
            continue
        ex = sc.Explorer()
        sc.set_axioms(sqrt_exact=True)
        res = []

        def fn(ex, expr=expr, inputs=inputs, res=res):
            env = {'np': symnp, 'nan': math.nan, 'inf': math.inf, 'float': float}
            for k, spec in inputs.items():
                a = symnp.asarray(spec['data'], spec['dtype'])
                vals = []
                for i, v in enumerate(a.flat_values()):
                    if isinstance(v, float) and not math.isfinite(v):
                        vals.append(v)
                    elif a.dtype.kind == 'f':
                        x = sc.SF(False, z3.Real('%s_%d' % (k, i)))
                        ex.assume(x == float(v))
                        vals.append(x)
                    else:
                        x = sc.SI(z3.Int('%s_%d' % (k, i)))
                        ex.assume(x == int(v))
                        vals.append(x)
                env[k] = symnp.SymArray.from_list(vals, a.shape, a.dtype)
            r = eval(expr, env)
            m = ex.ensure_model()
            res.append(_enc_model(m, r))
        ex.worklist = [[]]
        try:
            ex.explore(fn, slice_s=60)
            out.append(res[0] if len(res) == 1 else {'exc': 'paths', 'msg': '%d feasible paths' % len(res)})
        except Exception as e:
            out.append({'exc': type(e).__name__, 'msg': str(e)[:160]})
    return out


def _enc_model(m, v):
    from sx import symnp, core as sc
    if isinstance(v, symnp.MaskedSel):
        v = v._mat()
    if isinstance(v, symnp.SymArray):
        return {'shape': list(v.shape), 'kind': v.dtype.kind, 'vals': [_enc_model(m, x) for x in v.flat_values()]}
    if isinstance(v, (tuple, list)):
        return [_enc_model(m, x) for x in v]
    if sc.is_sym(v):
        v = sc.ev(m, v)
    return _enc(v)


def dask_cases():
    from props.common import compositions
    data = [[float(10 * y + x) for x in range(4)] for y in range(3)]
    data[1][2] = float('nan')
    cases = []
    for cy in compositions(3):
        for cx in compositions(4):
            for depth in ((0, 0), (1, 1), (1, 0), (0, 2), (2, 1), (2, 2)):
                cases.append(['overlap-halo', data, 'float64', [list(cy), list(cx)], list(depth), float('nan')])
            cases.append(['overlap-shape', data, 'float64', [list(cy), list(cx)], [1, 2], 0.0])
            cases.append(['blocks-shape', data, 'float64', [list(cy), list(cx)], [0, 0], 0.0])
    cases.append(['overlap-halo', data, 'float64', [[3], [4]], [4, 1], float('nan')])     # depth larger than the array
    cases.append(['nanmean', data, 'float64', [[1, 2], [2, 2]], [0, 0], 0.0])
    return cases


def shim_dask(cases):
    from sx import symnp, symda, userfuncs, core as sc
    sc.EX = sc.Explorer()
    out = []
    for op, data, dtype, chunks, depth, boundary in cases:
        x = symda.Array(symnp.asarray(data, dtype), tuple(tuple(c) for c in chunks))
        try:
            if op == 'overlap-halo':
                r = x.map_overlap(userfuncs.halo_probe, depth=tuple(depth), boundary=boundary, meta=None)
            elif op == 'overlap-shape':
                r = x.map_overlap(userfuncs.shape_probe, depth=tuple(depth), boundary=boundary, meta=None)
            elif op == 'blocks-shape':
                r = x.map_blocks(userfuncs.shape_probe)
            else:
                r = symda.nanmean(x)
            out.append(_enc(r.compute()))
        except Exception as e:
            out.append({'exc': type(e).__name__})
    return out


def main():
    import z3
    sys.path.insert(0, __import__('os').path.dirname(__import__('os').path.dirname(__import__('os').path.abspath(__file__))))
    from sx import wire
    w = wire.worker()
    r = w.request({'op': 'ping'})
    assert r['ok'], r
    print("selftest: z3", z3.get_version_string(), "| worker imports", r['file'])
    bad = 0
    real = w.script('numpy_eval', NUMPY_CASES)
    mine = shim_numpy(NUMPY_CASES)
    for (expr, _), a, b in zip(NUMPY_CASES, mine, real):
        if not _close(a, b):
            bad += 1
            print("selftest: numpy shim mismatch:", expr, "| shim", str(a)[:200], "| real", str(b)[:200])
    real = w.script('numpy_eval', NUMPY_CASES_EXTRA)
    mine = shim_numpy(NUMPY_CASES_EXTRA, lift=True)
    for (expr, _), a, b in zip(NUMPY_CASES_EXTRA, mine, real):
        if not _close(a, b):
            bad += 1
            print("selftest: numpy shim (extra) mismatch:", expr, "| shim", str(a)[:200], "| real", str(b)[:200])
    dc = dask_cases()
    real = w.script('dask_eval', dc)
    mine = shim_dask(dc)
    for c, a, b in zip(dc, mine, real):
        if not _close(a, b):
            bad += 1
            print("selftest: dask shim mismatch:", c[0], c[3], c[4], "| shim", str(a)[:200], "| real", str(b)[:200])
    wire.close_worker()
    print("selftest: %d numpy expressions, %d dask cases, %d mismatches" % (len(NUMPY_CASES) + len(NUMPY_CASES_EXTRA), len(dc), bad))
    return 3 if bad else 0
