"""setup-time / on-demand self test: the numpy and dask shims against the real libraries on concrete inputs."""
import itertools
import math
import sys

A = {'data': [[1.5, float('nan'), -2.0, 0.0], [4.0, 4.0, float('inf'), -0.5], [7.25, 3.0, 3.0, float('nan')]], 'dtype': 'float64'}
B = {'data': [[2.0, 1.0, 0.0, -1.0], [0.5, 4.0, 2.0, 8.0], [1.0, 3.0, -3.0, 2.0]], 'dtype': 'float64'}
I = {'data': [[3, -1, 250, 7], [0, 0, 9, 100], [5, 5, 5, 2]], 'dtype': 'int32'}
U = {'data': [[3, 1, 250, 7], [0, 0, 9, 100], [5, 5, 5, 2]], 'dtype': 'uint8'}
V = {'data': [3.0, 1.0, float('nan'), 2.0, 2.0, -1.0], 'dtype': 'float64'}
F32 = {'data': [[0.1, 0.2], [0.7, 16777217.0]], 'dtype': 'float32'}

NUMPY_CASES = [
    ('a + b', {'a': A, 'b': B}), ('a - b * 2', {'a': A, 'b': B}), ('a / b', {'a': A, 'b': B}), ('b / a', {'a': A, 'b': B}), ('a ** 2', {'a': A}),
    ('np.isnan(a)', {'a': A}), ('np.isfinite(a)', {'a': A}), ('np.isinf(a)', {'a': A}), ('a[np.isfinite(a)]', {'a': A}), ('a[a > 1]', {'a': A}),
    ('np.nansum(a)', {'a': B}), ('np.nanmean(a, axis=0)', {'a': A}), ('np.nanmax(a)', {'a': A}), ('np.nanmin(a, axis=1)', {'a': A}),
    ('np.nanstd(b)', {'b': B}), ('np.nanvar(b)', {'b': B}), ('b.mean()', {'b': B}), ('b.std()', {'b': B}), ('b.var()', {'b': B}), ('b.max()', {'b': B}), ('a.max()', {'a': A}),
    ('b.sum(axis=0)', {'b': B}), ('b.sum(axis=1)', {'b': B}), ('np.ptp(b)', {'b': B}), ('np.median(b)', {'b': B}), ('np.percentile(b, [25, 50, 100])', {'b': B}),
    ('np.argsort(v)', {'v': V}), ('np.sort(v)', {'v': V}), ('np.unique(v)', {'v': V}), ('np.unique(i)', {'i': I}), ('np.lexsort((v, np.array([1, 0, 1, 0, 1, 0])))', {'v': V}),
    ('np.where(a > 0, a, -1)', {'a': A}), ('np.where(np.isnan(v))[0]', {'v': V}), ('np.argwhere(b > 2)', {'b': B}),
    ('i + i', {'i': U}), ('i * 2', {'i': U}), ('i - 10', {'i': U}), ('i.astype("f4") / 3', {'i': I}), ('i.astype(float).dtype.kind', {'i': I}), ('(i > 4) & (i < 200)', {'i': I}),
    ('a.astype(np.uint8)', {'a': B}), ('np.array([float("nan"), float("inf"), -3.7, 300.2]).astype(np.uint8)', {}), ('np.array([float("nan"), 2.9, -2.9]).astype(np.int32)', {}),
    ('f.astype(np.float64)', {'f': F32}), ('np.float32(0.1) == 0.1', {}), ('np.asarray([0.1, 0.2], dtype=np.float32).astype(np.float64)', {}),
    ('a.ravel()', {'a': A}), ('a.T.ravel()', {'a': B}), ('a.T.ravel(order="K")', {'a': B}), ('a.reshape(4, 3)', {'a': B}), ('a.flatten()[::2]', {'a': B}), ('a[1:, ::2]', {'a': B}),
    ('np.shares_memory(b, b[1:])', {'b': B}), ('np.shares_memory(b, b.ravel())', {'b': B}), ('np.shares_memory(b, b.flatten())', {'b': B}), ('np.shares_memory(b, b.astype(float))', {'b': B}),
    ('np.shares_memory(b, b.astype(float, copy=False))', {'b': B}), ('np.shares_memory(b, b.T.ravel())', {'b': B}), ('np.shares_memory(i, i.astype(float, copy=False))', {'i': I}),
    ('np.tile(v, 2)', {'v': V}), ('np.repeat(v, 2)', {'v': V}), ('np.hstack((b, b))', {'b': B}), ('np.stack([b, b], axis=-1).shape', {'b': B}), ('np.concatenate([v, v])', {'v': V}),
    ('np.append(v, v)', {'v': V}), ('np.pad(b, ((1, 1), (0, 2)), mode="constant", constant_values=0)', {'b': B}), ('np.gradient(b)[0]', {'b': B}), ('np.gradient(b)[1]', {'b': B}),
    ('np.meshgrid(np.arange(3), np.arange(2))[0]', {}), ('np.linspace(0, 1, 5, endpoint=False)', {}), ('np.arange(0.5, 2.6, 0.5)', {}), ('np.full((2, 2), np.nan)', {}),
    ('np.zeros_like(i).dtype.kind', {'i': I}), ('np.zeros_like(i, dtype=np.float32).dtype.itemsize', {'i': I}), ('np.rot90(b)', {'b': B}), ('np.any(b > 7)', {'b': B}), ('np.all(b > -5, axis=0)', {'b': B}),
    ('np.abs(a)', {'a': A}), ('np.sqrt(np.abs(b))', {'b': B}), ('np.arctan2(b, a)', {'a': B, 'b': B}), ('np.radians(b)', {'b': B}), ('np.mod(i, 4)', {'i': I}), ('np.maximum(a, b)', {'a': A, 'b': B}),
    ('np.isclose(b, b + 1e-9)', {'b': B}), ('np.ma.count(b)', {'b': B}), ('np.nansum(np.array([[np.nan, np.nan], [1.0, np.nan]]), axis=0)', {}),
    ('np.all(np.isnan(np.array([[np.nan, 1.0], [np.nan, np.nan]])), axis=0)', {}), ('np.sum(v == -np.inf)', {'v': V}),
]


def _enc(v):
    from sx import symnp, core as sc
    import numpy as np
    if isinstance(v, symnp.SymArray):
        return {'shape': list(v.shape), 'kind': v.dtype.kind, 'vals': [_enc(x) for x in v.flat_values()]}
    if isinstance(v, np.ndarray):
        return {'shape': list(v.shape), 'kind': v.dtype.kind, 'vals': [_enc(x) for x in v.ravel().tolist()]}
    if isinstance(v, np.generic):
        v = v.item()
    if sc.is_sym(v):
        v = sc.as_const(v)
    if isinstance(v, float):
        if v != v:
            return 'nan'
        if v in (math.inf, -math.inf):
            return 'inf' if v > 0 else '-inf'
        return v
    if isinstance(v, (bool, int, str)) or v is None:
        return v
    if isinstance(v, (tuple, list)):
        return [_enc(x) for x in v]
    return repr(v)


def _close(a, b):
    if isinstance(a, dict) and isinstance(b, dict):
        if 'exc' in a or 'exc' in b:
            return a.get('exc') == b.get('exc')
        return a['shape'] == b['shape'] and a['kind'] == b['kind'] and len(a['vals']) == len(b['vals']) and all(_close(x, y) for x, y in zip(a['vals'], b['vals']))
    if isinstance(a, list) and isinstance(b, list):
        return len(a) == len(b) and all(_close(x, y) for x, y in zip(a, b))
    if isinstance(a, (int, float)) and isinstance(b, (int, float)) and not isinstance(a, bool) and not isinstance(b, bool):
        return abs(a - b) <= 1e-9 * (1 + abs(b))
    return a == b


def shim_numpy(cases):
    from sx import symnp, core as sc
    sc.EX = sc.Explorer()
    out = []
    for expr, inputs in cases:
        env = {'np': symnp, 'nan': math.nan, 'inf': math.inf, 'float': float}
        for k, spec in inputs.items():
            env[k] = symnp.asarray(spec['data'], spec['dtype'])
        try:
            out.append(_enc(eval(expr, env)))
        except Exception as e:
            out.append({'exc': type(e).__name__})
    return out


def dask_cases():
    from props.common import compositions
    data = [[float(10 * y + x) for x in range(4)] for y in range(3)]
    data[1][2] = float('nan')
    cases = []
    for cy in compositions(3):
        for cx in compositions(4):
            for depth in ((0, 0), (1, 1), (1, 0), (0, 2), (2, 1), (2, 2)):
                cases.append(['overlap-halo', data, 'float64', [list(cy), list(cx)], list(depth), float('nan')])
            cases.append(['overlap-shape', data, 'float64', [list(cy), list(cx)], [1, 2], 0.0])
            cases.append(['blocks-shape', data, 'float64', [list(cy), list(cx)], [0, 0], 0.0])
    cases.append(['overlap-halo', data, 'float64', [[3], [4]], [4, 1], float('nan')])     # depth larger than the array
    cases.append(['nanmean', data, 'float64', [[1, 2], [2, 2]], [0, 0], 0.0])
    return cases


def shim_dask(cases):
    from sx import symnp, symda, userfuncs, core as sc
    sc.EX = sc.Explorer()
    out = []
    for op, data, dtype, chunks, depth, boundary in cases:
        x = symda.Array(symnp.asarray(data, dtype), tuple(tuple(c) for c in chunks))
        try:
            if op == 'overlap-halo':
                r = x.map_overlap(userfuncs.halo_probe, depth=tuple(depth), boundary=boundary, meta=None)
            elif op == 'overlap-shape':
                r = x.map_overlap(userfuncs.shape_probe, depth=tuple(depth), boundary=boundary, meta=None)
            elif op == 'blocks-shape':
                r = x.map_blocks(userfuncs.shape_probe)
            else:
                r = symda.nanmean(x)
            out.append(_enc(r.compute()))
        except Exception as e:
            out.append({'exc': type(e).__name__})
    return out


def main():
    import z3
    sys.path.insert(0, __import__('os').path.dirname(__import__('os').path.dirname(__import__('os').path.abspath(__file__))))
    from sx import wire
    w = wire.worker()
    r = w.request({'op': 'ping'})
    assert r['ok'], r
    print("selftest: z3", z3.get_version_string(), "| worker imports", r['file'])
    bad = 0
    real = w.script('numpy_eval', NUMPY_CASES)
    mine = shim_numpy(NUMPY_CASES)
    for (expr, _), a, b in zip(NUMPY_CASES, mine, real):
        if not _close(a, b):
            bad += 1
            print("selftest: numpy shim mismatch:", expr, "| shim", str(a)[:200], "| real", str(b)[:200])
    dc = dask_cases()
    real = w.script('dask_eval', dc)
    mine = shim_dask(dc)
    for c, a, b in zip(dc, mine, real):
        if not _close(a, b):
            bad += 1
            print("selftest: dask shim mismatch:", c[0], c[3], c[4], "| shim", str(a)[:200], "| real", str(b)[:200])
    wire.close_worker()
    print("selftest: %d numpy expressions, %d dask cases, %d mismatches" % (len(NUMPY_CASES), len(dc), bad))
    return 3 if bad else 0
