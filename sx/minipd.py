"""Mini pandas / dask.dataframe: only what zonal/focal/local use to assemble result tables."""
import numpy as _np

from . import symnp
from . import symda
from .symnp import SymArray


def _col(v):
    if isinstance(v, symda.Array):
        v = v.compute()
    if isinstance(v, SymArray):
        return list(v.flat_values())
    if isinstance(v, _np.ndarray):
        return [x.item() if isinstance(x, _np.generic) else x for x in v.ravel()]
    if isinstance(v, Series):
        return list(v.vals)
    return list(v)


class Series:
    def __init__(self, vals, name=None, index=None):
        self.vals = _col(vals)
        self.name = name
        self.index = list(index) if index is not None else list(range(len(self.vals)))

    def __getitem__(self, k):
        if isinstance(k, str):
            return self.vals[self.index.index(k)]
        return self.vals[k]

    def __len__(self):
        return len(self.vals)

    def __iter__(self):
        return iter(self.vals)

    # element-wise comparisons / boolean algebra (masks for row selection: df[df['zone'] == z])
    def _ew(self, o, f):
        ov = o.vals if isinstance(o, Series) else [o] * len(self.vals)
        return Series([f(a, b) for a, b in zip(self.vals, ov)], name=self.name, index=self.index)

    def __eq__(self, o): return self._ew(o, lambda a, b: a == b)
    def __ne__(self, o): return self._ew(o, lambda a, b: a != b)
    def __lt__(self, o): return self._ew(o, lambda a, b: a < b)
    def __le__(self, o): return self._ew(o, lambda a, b: a <= b)
    def __gt__(self, o): return self._ew(o, lambda a, b: a > b)
    def __ge__(self, o): return self._ew(o, lambda a, b: a >= b)
    def __and__(self, o): return self._ew(o, lambda a, b: symnp.band(symnp.bt(a), symnp.bt(b)))
    def __or__(self, o): return self._ew(o, lambda a, b: symnp.bor(symnp.bt(a), symnp.bt(b)))
    def __invert__(self): return Series([symnp.bnot(symnp.bt(a)) for a in self.vals], name=self.name, index=self.index)
    __hash__ = None

    def isin(self, values):
        values = list(values.flat_values()) if hasattr(values, 'flat_values') else list(values)
        return Series([symnp.bor(*[symnp.bt(a == v) for v in values]) if values else False for a in self.vals], name=self.name, index=self.index)

    @property
    def values(self):
        return symnp.asarray(self.vals)

    def tolist(self):
        return list(self.vals)

    def flat_values(self):
        return list(self.vals)

    def to_numpy(self):
        return symnp.asarray(self.vals)


class _Loc:
    def __init__(self, df):
        self.df = df

    def __getitem__(self, k):
        if isinstance(k, (list, tuple)):
            return DataFrame({c: [self.df._d[c][i] for i in k] for c in self.df.columns})
        return DataFrame({c: [self.df._d[c][k]] for c in self.df.columns})


class DataFrame:
    def __init__(self, data=None, columns=None, index=None):
        self._d = {}
        if isinstance(data, DataFrame):
            data = data._d
        if isinstance(data, dict):
            for k, v in data.items():
                self._d[k] = _col(v)
        elif data is not None:
            rows = [_col(r) for r in data]
            cols = columns or list(range(len(rows[0]) if rows else 0))
            for j, c in enumerate(cols):
                self._d[c] = [r[j] for r in rows]
        n = {len(v) for v in self._d.values()}
        if len(n) > 1:
            raise ValueError("All arrays must be of the same length")

    @property
    def columns(self):
        return list(self._d.keys())

    @columns.setter
    def columns(self, names):
        names = list(names)
        if len(names) != len(self._d):
            raise ValueError("Length mismatch")
        self._d = dict(zip(names, self._d.values()))

    def __len__(self):
        for v in self._d.values():
            return len(v)
        return 0

    @property
    def shape(self):
        return (len(self), len(self._d))

    @property
    def loc(self):
        return _Loc(self)

    iloc = loc

    def __getitem__(self, k):
        if isinstance(k, list):
            return DataFrame({c: self._d[c] for c in k})
        if isinstance(k, Series):
            # boolean mask: keep the rows whose mask entry is true (each symbolic entry is a fork)
            rows = [i for i, b in enumerate(k.vals) if bool(symnp.mkbool(symnp.bt(b)))]
            return DataFrame({c: [self._d[c][i] for i in rows] for c in self.columns})
        return Series(self._d[k], name=k)

    def __setitem__(self, k, v):
        if isinstance(v, (int, float)):
            v = [v] * len(self)
        self._d[k] = _col(v)

    def __contains__(self, k):
        return k in self._d

    def iterrows(self):
        cols = self.columns
        for i in range(len(self)):
            yield i, Series([self._d[c][i] for c in cols], index=cols)

    def compute(self, **kw):
        return self

    def to_dict(self, *a, **k):
        return {c: list(v) for c, v in self._d.items()}

    def items(self):
        return self._d.items()

    def keys(self):
        return self._d.keys()

    def drop(self, columns=None, **kw):
        cols = [columns] if isinstance(columns, str) else list(columns or [])
        return DataFrame({c: v for c, v in self._d.items() if c not in cols})

    def sum(self, axis=0):
        if axis == 1:
            cols = self.columns
            return Series([symnp.s_sum([self._d[c][i] for c in cols]) for i in range(len(self))])
        return Series([symnp.s_sum(v) for v in self._d.values()], index=self.columns)

    def div(self, other, axis=0):
        o = _col(other)
        return DataFrame({c: [symnp._sdiv(x, d) for x, d in zip(v, o)] for c, v in self._d.items()})

    def __mul__(self, k):
        return DataFrame({c: [x * k for x in v] for c, v in self._d.items()})

    def __repr__(self):
        return "sx.DataFrame(%r)" % (self._d,)


class Index(list):
    def __init__(self, data, name=None):
        list.__init__(self, data)
        self.name = name


def concat(objs, axis=0, **kw):
    objs = list(objs)
    if axis == 1:
        d = {}
        for i, o in enumerate(objs):
            if isinstance(o, Series):
                d[o.name if o.name is not None else i] = o.vals
            else:
                for c in o.columns:
                    d[c] = o._d[c]
        # duplicate unnamed columns keep position keys
        return DataFrame(d)
    cols = objs[0].columns
    return DataFrame({c: [x for o in objs for x in o._d[c]] for c in cols})


# dask.dataframe facade
def from_dask_array(a, columns=None, **kw):
    return Series(a.compute() if isinstance(a, symda.Array) else a, name=columns)


def from_delayed(dfs, **kw):
    dfs = [d.compute() if isinstance(d, symda.Delayed) else d for d in (dfs if isinstance(dfs, (list, tuple)) else [dfs])]
    return concat(dfs)


def from_pandas(df, **kw):
    return df


def unique(values):
    """pandas.unique: distinct values in order of first appearance (not sorted); symbolic equality forks"""
    vals = list(symnp.asarray(values).ravel().flat_values())
    out = []
    for v in vals:
        dup = False
        for u in out:
            if bool(v == u):
                dup = True
                break
        if not dup:
            out.append(v)
    return symnp.asarray(out) if out else symnp.asarray([], 'float64')
