"""AST pre-pass: rewrite short-circuit bool ops, conditional expressions and side-effect-free
if-diamonds into guarded (ite-building) form.  For concrete conditions the rewritten code
behaves exactly like the original."""
import ast
import copy

PURE_CALLS = {'abs', 'min', 'max', 'len', 'int', 'float', 'isnan', 'sqrt', 'fabs', 'atan', 'atan2', 'bool',
              'sin', 'cos', 'exp', 'isinf', 'isfinite', 'round', 'tuple'}
PURE_MODULES = ('np', 'math', 'numpy', 'nb')
EXTRA_PURE = set()   # names of module-level functions judged pure by the loader (per module)


def _pure_expr(e):
    for n in ast.walk(e):
        if isinstance(n, ast.Call):
            f = n.func
            if isinstance(f, ast.Name) and (f.id in PURE_CALLS or f.id in EXTRA_PURE):
                continue
            if isinstance(f, ast.Attribute) and isinstance(f.value, ast.Name) and f.value.id in PURE_MODULES:
                continue
            return False
        if isinstance(n, (ast.Lambda, ast.Yield, ast.YieldFrom, ast.Await, ast.NamedExpr, ast.ListComp,
                          ast.GeneratorExp, ast.DictComp, ast.SetComp, ast.Starred)):
            return False
    return True


def _simple_target(t):
    if isinstance(t, ast.Name):
        return True
    if isinstance(t, ast.Subscript):
        return _pure_expr(t.value) and _pure_expr(t.slice)
    if isinstance(t, ast.Tuple):
        return all(isinstance(e, ast.Name) for e in t.elts)
    return False


def _simple_block(stmts):
    for s in stmts:
        if isinstance(s, ast.Pass):
            continue
        if isinstance(s, ast.Expr) and isinstance(s.value, ast.Constant):
            continue
        if isinstance(s, ast.Assign):
            if len(s.targets) != 1 or not _simple_target(s.targets[0]) or not _pure_expr(s.value):
                return False
            if isinstance(s.targets[0], ast.Tuple) and not (isinstance(s.value, ast.Tuple) and len(s.value.elts) == len(s.targets[0].elts)):
                return False
            continue
        if isinstance(s, ast.AugAssign):
            if not _simple_target(s.target) or isinstance(s.target, ast.Tuple) or not _pure_expr(s.value):
                return False
            continue
        if isinstance(s, ast.If):
            if not _pure_expr(s.test) or not _simple_block(s.body) or not _simple_block(s.orelse):
                return False
            continue
        return False
    return True


def _call(name, *args):
    return ast.Call(func=ast.Attribute(value=ast.Name(id='_sx_rt_', ctx=ast.Load()), attr=name, ctx=ast.Load()),
                    args=list(args), keywords=[])


def _thunk(e):
    return ast.Lambda(args=ast.arguments(posonlyargs=[], args=[], kwonlyargs=[], kw_defaults=[], defaults=[]), body=e)


def _as_load(t):
    t = copy.deepcopy(t)
    for n in ast.walk(t):
        if hasattr(n, 'ctx'):
            n.ctx = ast.Load()
    return t


class Merge(ast.NodeTransformer):
    def __init__(self):
        self.n = 0

    def fresh(self):
        self.n += 1
        return "_sx_g%d_" % self.n

    # --- expressions
    def visit_BoolOp(self, node):
        self.generic_visit(node)
        if all(_pure_expr(v) for v in node.values[1:]):
            fn = 'and_' if isinstance(node.op, ast.And) else 'or_'
            return ast.copy_location(_call(fn, *[_thunk(v) for v in node.values]), node)
        return node

    def visit_UnaryOp(self, node):
        self.generic_visit(node)
        if isinstance(node.op, ast.Not):
            return ast.copy_location(_call('not_', node.operand), node)
        return node

    def visit_Compare(self, node):
        self.generic_visit(node)
        if len(node.ops) > 1 and all(_pure_expr(c) for c in node.comparators) and _pure_expr(node.left):
            parts = []
            left = node.left
            for op, c in zip(node.ops, node.comparators):
                parts.append(ast.Compare(left=copy.deepcopy(left), ops=[op], comparators=[copy.deepcopy(c)]))
                left = c
            return ast.copy_location(_call('and_', *[_thunk(p) for p in parts]), node)
        return node

    def visit_IfExp(self, node):
        self.generic_visit(node)
        if _pure_expr(node.body) and _pure_expr(node.orelse):
            return ast.copy_location(_call('ifexp', node.test, _thunk(node.body), _thunk(node.orelse)), node)
        return node

    # --- statements
    def _merge_return_tail(self, body):
        """[..., If(test, [Return a], []), Return b]  ->  [..., Return(a if test else b)]   (pure a, b, test)"""
        changed = True
        while changed and len(body) >= 2:
            changed = False
            last, prev = body[-1], body[-2]
            if (isinstance(last, ast.Return) and last.value is not None and isinstance(prev, ast.If) and not prev.orelse
                    and len(prev.body) == 1 and isinstance(prev.body[0], ast.Return) and prev.body[0].value is not None
                    and _pure_expr(prev.test) and _pure_expr(prev.body[0].value) and _pure_expr(last.value)):
                new = ast.Return(value=ast.IfExp(test=prev.test, body=prev.body[0].value, orelse=last.value))
                body[-2:] = [ast.copy_location(new, prev)]
                changed = True
        if body and isinstance(body[-1], ast.If) and len(body[-1].body) == 1 and len(body[-1].orelse) == 1 \
                and isinstance(body[-1].body[0], ast.Return) and isinstance(body[-1].orelse[0], ast.Return) \
                and body[-1].body[0].value is not None and body[-1].orelse[0].value is not None \
                and _pure_expr(body[-1].test) and _pure_expr(body[-1].body[0].value) and _pure_expr(body[-1].orelse[0].value):
            n = body[-1]
            body[-1] = ast.copy_location(ast.Return(value=ast.IfExp(test=n.test, body=n.body[0].value, orelse=n.orelse[0].value)), n)
        return body

    def visit_FunctionDef(self, node):
        node.body = self._merge_return_tail(list(node.body))
        self.generic_visit(node)
        return node

    def visit_If(self, node):
        simple = _pure_expr(node.test) and _simple_block(node.body) and _simple_block(node.orelse)
        orig = copy.deepcopy(node)
        plain = self.generic_visit(node)
        if not simple:
            return plain
        g = self.fresh()
        test = self.visit(copy.deepcopy(orig.test))
        assign = ast.Assign(targets=[ast.Name(id=g, ctx=ast.Store())], value=_call('cond', test))
        guarded = self._guarded(orig.body, ast.Name(id=g, ctx=ast.Load())) + \
            self._guarded(orig.orelse, _call('not_', ast.Name(id=g, ctx=ast.Load())))
        if not guarded:
            guarded = [ast.Pass()]
        plain.test = ast.Name(id=g, ctx=ast.Load())
        wrapper = ast.If(test=_call('concrete', ast.Name(id=g, ctx=ast.Load())), body=[plain], orelse=guarded)
        return [ast.copy_location(assign, node), ast.copy_location(wrapper, node)]

    def _guarded(self, stmts, gexpr):
        out = []
        for s in stmts:
            if isinstance(s, ast.Pass) or (isinstance(s, ast.Expr) and isinstance(s.value, ast.Constant)):
                continue
            if isinstance(s, ast.Assign):
                t = s.targets[0]
                if isinstance(t, ast.Tuple):
                    # a, b = x, y  ->  evaluate all right-hand sides first, then guarded stores
                    tmps = []
                    for e in s.value.elts:
                        tmp = self.fresh()
                        tmps.append(tmp)
                        out.append(ast.copy_location(ast.Assign(
                            targets=[ast.Name(id=tmp, ctx=ast.Store())],
                            value=_call('geval', gexpr, _thunk(self.visit(copy.deepcopy(e))))), s))
                    for tgt, tmp in zip(t.elts, tmps):
                        out.append(ast.copy_location(ast.Assign(
                            targets=[copy.deepcopy(tgt)],
                            value=_call('gassign_val', gexpr, ast.Name(id=tmp, ctx=ast.Load()), _thunk(_as_load(tgt)))), s))
                    continue
                val = self.visit(copy.deepcopy(s.value))
                new = ast.Assign(targets=[copy.deepcopy(t)], value=_call('gassign', gexpr, _thunk(val), _thunk(_as_load(t))))
                out.append(ast.copy_location(new, s))
            elif isinstance(s, ast.AugAssign):
                t = s.target
                val = ast.BinOp(left=_as_load(t), op=s.op, right=self.visit(copy.deepcopy(s.value)))
                new = ast.Assign(targets=[copy.deepcopy(t)], value=_call('gassign', gexpr, _thunk(val), _thunk(_as_load(t))))
                out.append(ast.copy_location(new, s))
            elif isinstance(s, ast.If):
                g2 = self.fresh()
                test = self.visit(copy.deepcopy(s.test))
                # the nested test itself may only be meaningful under the outer guard
                out.append(ast.copy_location(ast.Assign(
                    targets=[ast.Name(id=g2, ctx=ast.Store())],
                    value=_call('gassign', gexpr, _thunk(_call('cond', test)), _thunk(ast.Constant(value=False)))), s))
                gt = _call('and2', gexpr, ast.Name(id=g2, ctx=ast.Load()))
                gf = _call('and2', gexpr, _call('not_', ast.Name(id=g2, ctx=ast.Load())))
                out += self._guarded(s.body, gt)
                out += self._guarded(s.orelse, gf)
        return out


def transform_source(src, filename, merge=True):
    tree = ast.parse(src, filename)
    if merge:
        tree = Merge().visit(tree)
        ast.fix_missing_locations(tree)
    return compile(tree, filename, 'exec')
