#!/bin/bash
# run every quick (or thorough) check sequentially; prints one summary line per property
tier=${1:-quick}
cd "$(dirname "$0")"
for p in C01 C02 C03 C04 C05 C06 C07 C08 C09 C10 C11 C12 C13 C14 C15 C16 C17 C18 C19; do
  /usr/bin/time -f "$p wall=%es" ./check $p --tier $tier 2>&1 | grep -v -i "warning\|warn(" | grep -E "^C[0-9]+ (quick|thorough)|VIOLATION|KNOWN|INCONCL|HARNESS|wall=" | tr '\n' ' '
  echo
done
