#!/bin/bash
# usage: tools_mutcheck.sh <patch.diff> <PROP> [tier]  -- apply patch to /repo, run check, revert
set -u
patch=$1; prop=$2; tier=${3:-quick}
cd /repo || exit 9
if ! git diff --quiet; then echo "REPO DIRTY"; exit 9; fi
git apply "$patch" || { echo "APPLY FAILED"; exit 9; }
cd /verif && timeout 1800 ./check $prop --tier $tier 2>&1 | tail -6
rc=${PIPESTATUS[0]}
git -C /repo checkout -- .
echo "rc=$rc"
